"""C11 - the diplotype is a faithful arrangement of the called alleles.

Monitor: icontract postcondition on the real estimate_diplotype (partition of the copy indices)
plus predicates on the rendered strings (ref: dipref below), over multisets of 0-6 major alleles in
every permutation order.
"""
import collections
import itertools
import re

from .. import util
from ..gen import tables
from ..util import Res

ID = "C11"
RULE = (
    "one evaluation = one (database, build, ordered list of 0-6 called alleles with random minor "
    "alleles / added / lost variants, display format); all permutations for n <= 4, sampled beyond; "
    "non-trivial = at least 2 copies and (two different alleles or a tandem / fusion / novel core "
    "variant); distinct by the sorted multiset of (major, minor, added) and gene"
)
ASSUMPTIONS = [
    "natural order is natsort's (the library the code itself uses)",
    "tandem partners are identified by the allele number, as in the database's tandem list",
]
MIN = {
    "quick": {"partition": 10000, "contract_partition": 10000, "names": 10000, "tandem_adjacent": 300,
              "natural_order": 10000, "order_independent": 800, "deletion_placeholders": 10000,
              "both_nonempty": 8000},
    "thorough": {"partition": 300000, "contract_partition": 300000, "names": 300000,
                 "tandem_adjacent": 10000, "natural_order": 300000, "order_independent": 30000,
                 "deletion_placeholders": 300000, "both_nonempty": 200000},
}
CASE_TIMEOUT = {"quick": 600, "thorough": 3000}
GENES = ["toy", "cyp2d6", "cyp2a6", "cyp2c19", "gstm1", "gen", "gen", "gen"]


class PartitionBroken(Exception):
    pass


_contract = {}
_evals = collections.Counter()


def _partition_ok(gene, solution, result):
    _evals["contract"] += 1
    n = len(solution.solution)
    flat = [i for h in result for i in h if i != -1]
    return sorted(flat) == list(range(n)) and len(result) == 2


def contracted():
    """estimate_diplotype wrapped with an icontract postcondition (built once per process)."""
    if "f" not in _contract:
        import icontract
        from aldy.diplotype import estimate_diplotype

        _contract["f"] = icontract.ensure(_partition_ok, error=PartitionBroken)(estimate_diplotype)
    return _contract["f"]


def plan(tier, seed):
    n = 256 if tier == "quick" else 6000
    return [{"seed": seed, "batch": b, "n": 12} for b in range(n)]


def real_name(major):
    n = str(major).split("#")[0]
    comp = re.split(r"(\d+)", n)
    return comp[0] if comp[0] != "" else comp[1]


def expected_name(gene, sa):
    n = str(sa.major).split("#")[0]
    for m in sorted(sa.added):
        if (m.pos, m.op) in gene.mutations and gene.mutations[m.pos, m.op][0]:
            rs = gene.mutations[m.pos, m.op][1]
            n += "+" + (rs if rs != "-" else f"{m.pos + 1}.{m.op}")
    return n


def check_diplotype(res, gene, alleles, display_format, desc, strings=None):
    """alleles: list of SolvedAllele in production order. Returns rendered major diplotype."""
    from natsort import natsorted

    from aldy.profile import Profile
    from aldy.solutions import CNSolution, MajorSolution, MinorSolution, SolvedAllele

    dele = gene.deletion_allele()
    cn = CNSolution(gene, 0, [gene.alleles[a.major].cn_config for a in alleles])
    major = MajorSolution(0, collections.Counter(SolvedAllele(gene, a.major) for a in alleles), cn, [])
    prof = Profile("x")
    prof.display_format = display_format
    sol = MinorSolution(0, list(alleles), major, profile=prof)
    f = contracted()
    try:
        dip = f(gene, sol)
        res.check("contract_partition", True)
    except PartitionBroken as e:
        res.check("contract_partition", False, "estimate_diplotype: indices are not a partition of the called copies",
                  error=str(e)[:300], **desc)
        from aldy.diplotype import estimate_diplotype

        dip = estimate_diplotype(gene, sol)
    n = len(alleles)
    res.check("returns_attribute", list(map(list, sol.diplotype)) == list(map(list, dip)),
              "returned diplotype differs from the one stored on the solution")
    flat = [i for h in dip for i in h]
    real = [i for i in flat if i != -1]
    res.check("partition", sorted(real) == list(range(n)) and len(dip) == 2,
              "every called copy must appear exactly once", diplotype=dip, n=n, **desc)
    if n >= 2:
        res.check("both_nonempty", all(len(h) > 0 for h in dip), "a haplotype is empty although >= 2 copies are called",
                  diplotype=dip, **desc)
    want_del = max(0, 2 - n) if dele else 0
    res.check("deletion_placeholders", flat.count(-1) == want_del,
              "whole-gene-deletion placeholders differ from the number of missing haplotypes",
              diplotype=dip, expected=want_del, **desc)
    s_major = sol.get_major_diplotype()
    s_minor = sol.get_minor_diplotype()
    if not display_format:
        # names shown = called majors (fusion suffix removed, novel core variants appended)
        shown = [[x.strip()[1:] for x in h.split(" + ")] for h in s_major.split(" / ")] if s_major else []
        exp = [[(dele if i == -1 else expected_name(gene, alleles[i])) for i in h] for h in dip if h]
        res.check("names", shown == exp, "rendered names differ from the called major alleles",
                  rendered=s_major, expected=exp, **desc)
        want_multiset = collections.Counter(expected_name(gene, a) for a in alleles)
        if dele:
            want_multiset[dele] += want_del
        res.check("names", collections.Counter(x for h in shown for x in h) == want_multiset,
                  "multiset of rendered names differs from the called alleles", rendered=s_major, **desc)
        # natural order: tandem pairs collapsed to their head
        names = [[(dele if i == -1 else expected_name(gene, alleles[i])) for i in h] for h in dip]
        reals = [[(real_name(dele) if i == -1 else real_name(alleles[i].major)) for i in h] for h in dip]
        tand = [tuple(t) for t in gene.common_tandems] if n > 2 else []
        for hn, hr in zip(names, reals):
            ok = False
            # some way of collapsing adjacent tandem pairs must give a naturally sorted list
            idxs = [k for k in range(len(hr) - 1) if (hr[k], hr[k + 1]) in tand]
            for r in range(len(idxs) + 1):
                for comb in itertools.combinations(idxs, r):
                    if any(b - a == 1 for a, b in zip(comb, comb[1:])):
                        continue
                    keep = [x for k, x in enumerate(hn) if (k - 1) not in comb]
                    if keep == natsorted(keep):
                        ok = True
                        break
                if ok:
                    break
            res.check("natural_order", ok, "alleles within a haplotype are not in natural order",
                      haplotype=hn, rendered=s_major, **desc)
        nn = [h for h in names]
        res.check("natural_order", nn == natsorted(nn), "haplotypes are not in natural order",
                  rendered=s_major, **desc)
        # tandems adjacent on one haplotype
        if n > 2 and tand:
            avail = collections.Counter(real_name(a.major) for a in alleles)
            for ta, tb in tand:
                if ta == tb:
                    continue
                k = min(avail[ta], avail[tb])
                if not k:
                    continue
                avail[ta] -= k
                avail[tb] -= k
                adj = sum(1 for hr in reals for i in range(len(hr) - 1) if (hr[i], hr[i + 1]) == (ta, tb))
                res.check("tandem_adjacent", adj >= k,
                          "alleles listed as a common tandem are not next to each other on one haplotype",
                          tandem=[ta, tb], expected_pairs=k, adjacent=adj, rendered=s_major, **desc)
        # minor diplotype lists every copy once under its minor allele
        mshown = re.findall(r"\[\*([^\]]*)\]", s_minor)
        mexp = collections.Counter()
        for i in flat:
            if i == -1:
                mexp[str(dele)] += 1
            else:
                a = alleles[i]
                t = [a.minor] + ["+" + gene.get_rsid(m) for m in sorted(a.added)] + \
                    ["-" + gene.get_rsid(m) for m in sorted(a.missing)]
                mexp[" ".join(t)] += 1
        res.check("minor_names", collections.Counter(mshown) == mexp,
                  "minor diplotype does not list every copy once under its minor allele",
                  rendered=s_minor, expected=dict(mexp), **desc)
    return s_major, s_minor


def _random_alleles(g, rng, n):
    from aldy.gene import Mutation
    from aldy.solutions import SolvedAllele

    dele = g.deletion_allele()
    names = [a for a in g.alleles if a != dele]
    tand = [t for t in g.common_tandems]
    picks = []
    if tand and n > 2 and rng.random() < 0.6:
        ta, tb = rng.choice(tand)
        for want in (ta, tb):
            c = [a for a in names if real_name(a) == want]
            if c:
                picks.append(rng.choice(c))
        if rng.random() < 0.4:
            # a second tandem sharing the partner, or the same head twice
            ta2, tb2 = rng.choice(tand)
            c = [a for a in names if real_name(a) == ta2]
            if c:
                picks.append(rng.choice(c))
    while len(picks) < n:
        if picks and rng.random() < 0.35:
            picks.append(rng.choice(picks))
        elif dele and rng.random() < 0.06:
            picks.append(dele)  # the deletion allele itself as a called copy
        else:
            picks.append(rng.choice(names))
    picks = picks[:n]
    fm = sorted(m for m in g.mutations if g.mutations[m][0])
    sm = sorted(m for m in g.mutations if not g.mutations[m][0])
    out = []
    for a in picks:
        minors = list(g.alleles[a].minors)
        mi = rng.choice(minors)
        added, missing = [], []
        own = tables.allele_variants(g, a, mi)
        if fm and rng.random() < 0.25:
            m = Mutation(*rng.choice(fm))
            if m not in own:
                added.append(m)
        if sm and rng.random() < 0.2:
            m = Mutation(*rng.choice(sm))
            if m not in own:
                added.append(m)
        neutral = sorted(g.alleles[a].minors[mi].neutral_muts)
        if neutral and rng.random() < 0.2:
            missing.append(rng.choice(neutral))
        out.append(SolvedAllele(g, a, mi, added, missing))
    return out


def run(case):
    util.import_aldy()
    res = Res()
    fps = []
    for k in range(case["n"]):
        rng = util.rng_for("c11", case["seed"], case["batch"], k)
        gname = rng.choice(GENES)
        genome = rng.choice(["hg19", "hg38"])
        if gname == "gen":
            from ..gen import dbgen

            g = dbgen.random_gene(rng, genome=genome, want_cn=True)
        else:
            g = tables.gene(gname, genome)
        n = rng.choice([0, 1, 1, 2, 2, 2, 3, 3, 3, 4, 4, 5, 6])
        alleles = _random_alleles(g, rng, n)
        disp = rng.random() < 0.15
        base = {"gene": gname, "genome": genome, "display_format": disp}
        if n <= 4:
            perms = list(itertools.permutations(range(n)))
        else:
            perms = [tuple(rng.sample(range(n), n)) for _ in range(12)]
        strings = set()
        for perm in perms:
            order = [alleles[i] for i in perm]
            desc = dict(base, called=[[a.major, a.minor, [str(m) for m in a.added]] for a in order])
            s = check_diplotype(res, g, order, disp, desc)
            strings.add(s[0])  # the major diplotype is what the statement calls 'the string'
            res.count("orders")
        if n <= 2:
            res.check("order_independent", len(strings) == 1,
                      "diplotype string depends on the order in which the alleles were produced",
                      strings=sorted(strings), called=[[a.major, a.minor, [str(m) for m in a.added]] for a in alleles],
                      **base)
        key = sorted((a.major, a.minor, tuple(map(str, a.added))) for a in alleles)
        if n >= 2 and (len({a.major for a in alleles}) > 1 or any(a.added for a in alleles)
                       or any("#" in a.major for a in alleles)):
            fps.append(util.fingerprint([gname, genome, key]))
        if res.sample is None and n >= 3 and case["batch"] < 4:
            res.sample = {"gene": gname, "called": [a.major for a in alleles], "rendered": sorted(strings)[:3]}
    res.fp = util.fingerprint(fps)
    res.nontrivial = bool(fps)
    res.counters["distinct_multisets"] = len(set(fps))
    res.counters["contract_evaluations"] = _evals["contract"]
    return res


def summarize(results):
    return {"distinct_nontrivial_multisets": sum(r["counters"].get("distinct_multisets", 0) for r in results)}
