"""C01 - error-free reads from a catalogued genotype are called as that genotype.

Monitor: wrapper around genotype() on simulated error-free samples (real BAM files); the
precondition "the planted structure is an optimal explanation of the region depths" is decided by
the exhaustive structure evaluator on the depths the run itself handed to the structure model.
"""
import collections

from .. import lpmon, util
from ..gen import tables
from ..ref import cnref
from ..util import Res
from . import _sim

ID = "C01"
RULE = (
    "one case = (database: generated on either strand with/without pseudogene, or a small shipped "
    "gene; build; admissible multiset of 1-4 catalogued alleles incl. deletion / extra copies / "
    "fusions / indel and MNP alleles; read length 50-250; per-copy depth 20-60; profile from a "
    "simulated two-copy reference BAM); non-trivial = at least one non-reference allele; distinct by "
    "(database, build, planted multiset, read length, depth)"
)
ASSUMPTIONS = [
    "simulated reads are alignments written directly (no aligner); exactly uniform tiling",
    "structures follow aldy's structural model (two complete haplotypes, extra copies gene-only)",
    "silent multi-nucleotide variants and deletion-insertions are not planted (see known findings / DESIGN)",
]
MIN = {
    "quick": {"planted_majors_among_best": 100, "variants_exact": 100, "precondition": 120},
    "thorough": {"planted_majors_among_best": 3000, "variants_exact": 3000, "precondition": 3500},
}
CASE_TIMEOUT = {"quick": 900, "thorough": 3000}
TOTAL_TIMEOUT = {"quick": 1800, "thorough": 7200}
SHIPPED = ["gstm1", "cyp2a6", "cyp2c19", "ifnl3", "nudt15", "tpmt", "cyp2c9", "vkorc1"]


def plan(tier, seed):
    n = 56 if tier == "quick" else 1400
    cases = []
    for b in range(n):
        cases.append({"kind": "gen", "seed": seed, "batch": b, "n": 3})
    for k in range(10 if tier == "quick" else 150):
        cases.append({"kind": "twin", "seed": seed, "k": k})
    for k in range(12 if tier == "quick" else 150):
        cases.append({"kind": "multisite", "seed": seed, "k": k})
    for k in range(8 if tier == "quick" else 120):
        cases.append({"kind": "shipped", "seed": seed, "k": k, "gene": SHIPPED[k % len(SHIPPED)]})
    return cases


class CnCapture:
    def __init__(self):
        import aldy.cn

        self.mod = aldy.cn
        self.orig = aldy.cn.solve_cn_model
        self.calls = []

        def wrap(gene, profile, cn_configs, max_cn, region_coverage, solver, debug=None, fusion_support=None):
            self.calls.append((cn_configs, max_cn, dict(region_coverage), fusion_support, profile))
            return self.orig(gene, profile, cn_configs, max_cn, region_coverage, solver, debug, fusion_support)

        self.wrap = wrap

    def __enter__(self):
        self.mod.solve_cn_model = self.wrap
        return self

    def __exit__(self, *a):
        self.mod.solve_cn_model = self.orig


class RealignerRecorder:
    """Proxy around aldy.indelpost.VariantAlignment (looked up at call time by _realign_indels): records, per
    catalogued indel handed to the realigner, the realigner's own allele counts and supporting read names."""

    def __init__(self):
        import aldy.indelpost as ip

        self.ip = ip
        self.orig = ip.VariantAlignment
        self.records = []
        outer = self

        class VA:
            def __init__(self, v, sam, **kw):
                self._rec = {"pos": v.pos, "ref": v.ref, "alt": v.alt}
                outer.records.append(self._rec)
                self._i = outer.orig(v, sam, **kw)

            def phase(self, *a, **k):
                r = self._i.phase(*a, **k)
                self._rec["phased"] = (len(r.ref), len(r.alt))
                return r

            def count_alleles(self, *a, **k):
                c = self._i.count_alleles(*a, **k)
                self._rec["count"] = list(c)
                return c

            def fetch_reads(self, how="target"):
                rs = self._i.fetch_reads(how)
                if how == "target":
                    self._rec["target"] = {r.query_name for r in rs}
                return rs

            def __getattr__(self, name):
                return getattr(self._i, name)

        self.VA = VA

    def __enter__(self):
        self.ip.VariantAlignment = self.VA
        return self

    def __exit__(self, *a):
        self.ip.VariantAlignment = self.orig

    def by_indel(self):
        """{(pos, op): record} in aldy's keys (insertion after base pos, deletion starting at pos)."""
        out = {}
        for r in self.records:
            ref, alt, p = r["ref"], r["alt"], r["pos"] - 1
            if len(ref) == 1 and len(alt) > 1 and alt[0] == ref:
                key = (p, "ins" + alt[1:])
            elif len(alt) == 1 and len(ref) > 1 and ref[0] == alt:
                key = (p + 1, "del" + ref[1:])
            else:
                key = (p, f"del{ref}ins{alt}")
            out[key] = r
        return out


def check_indel_bookkeeping(res, sample, recorder, desc):
    """The support table equals the realigner's own counts; the only documented correction: a shorter insertion at
    the *same* site as a longer, already supported one that starts with it does not count the reads already used."""
    recs = recorder.by_indel()
    prev = None
    for (pos, op) in sorted(sample._indel_sites, key=lambda x: (x[0], -len(x[1]))):
        r = recs.get((pos, op))
        if not r or "count" not in r:
            continue
        off, on = r["count"]
        if prev and prev[0] == pos and op.startswith("ins") and prev[1].startswith(op):
            x = len(r.get("target", set()) & prev[2])
            off, on = off + x, on - x
        got = list(sample._indel_sites[pos, op])
        res.check("indel_table_is_realigner_count", got == [off, on],
                  "the indel support table differs from the realigner's counts for that indel",
                  indel=f"{pos}.{op}", table=got, realigner=[off, on], **desc)
        if got[1]:
            prev = (pos, op, r.get("target", set()))
    return recs


def planted_variants(g, copies):
    c = collections.Counter()
    for cp in copies:
        vs = tables.allele_variants(g, cp[0], cp[1])
        for m in vs:
            c[m] += 1
    return c


# clauses about aldy's own bookkeeping of indel support: exact, never explained by a realigner / placement mechanism
EXACT_CLAUSES = ("fast_path_indel_support", "indel_table_is_realigner_count")


def check_sample(res, db, copies, rl, depth, desc, params=None, truth=False):
    """Simulate, genotype, check. Returns True if the case was decided (precondition met).

    A discrepancy on a sample whose planted alleles contain an insertion is re-examined with the
    read-phase term switched off: if it vanishes, it is the (listed) insertion-site phase mechanism."""
    g = db.gene
    sub = Res()
    decided = _check_sample(sub, db, copies, rl, depth, desc, params, truth)
    res._sols = getattr(sub, "_sols", None)
    res._observables = {k: getattr(sub, "_" + k, None) for k in ("subsumed", "miscount", "shifted")}
    has_ins = any(not (">" in m.op and len(m.op) == 3)
                  for c in copies for m in tables.allele_variants(g, c[0], c[1]))
    if sub.disc and has_ins and not (params or {}).get("phase") is False:
        sub2 = Res()
        _check_sample(sub2, db, copies, rl, depth, desc, dict(params or {}, phase=False), truth)
        if not sub2.disc:
            for d in sub.disc:
                if d["clause"] in EXACT_CLAUSES:
                    continue
                d["mech"] = "phase-nonsnp-site"
                d["witness"]["holds_with_phase_off"] = True
    realigner_on = (params or {}).get("indelpost") is not False
    if not realigner_on:
        # the three mechanisms below are about the realigner (its phasing, its counts, its placement rule); with the
        # realigner off the equivalent placements of every catalogued indel are matched directly
        # (a shiftable placement still leaves the per-base evidence at the catalogue's site inconsistent with the table)
        sub._subsumed, sub._miscount = [], []
        res._observables = {"subsumed": [], "miscount": [], "shifted": getattr(sub, "_shifted", None)}
    if sub.disc and getattr(sub, "_subsumed", None):
        for d in sub.disc:
            if d["mech"] is None and d["clause"] not in EXACT_CLAUSES:
                d["mech"] = "cis-indels-subsumed"
                d["witness"]["zero_support_indels"] = sub._subsumed
    if sub.disc and getattr(sub, "_miscount", None):
        for d in sub.disc:
            if d["mech"] is None and d["clause"] not in EXACT_CLAUSES:
                d["mech"] = "indel-support-miscount"
                d["witness"]["miscounted"] = sub._miscount
    if sub.disc and getattr(sub, "_shifted", None):
        for d in sub.disc:
            if d["mech"] is None and d["clause"] not in EXACT_CLAUSES:
                d["mech"] = "shiftable-indel-site"
                d["witness"]["shiftable_indels"] = sub._shifted
    for k, v in sub.clauses.items():
        res.clauses[k] += v
    for k, v in sub.counters.items():
        res.counters[k] += v
    res.disc += sub.disc
    return decided


def _check_sample(res, db, copies, rl, depth, desc, params=None, truth=False):
    g = db.gene
    bam, rds = db.sim(copies, "s.bam", rl, depth, truth=truth)
    prof_bam = db.ref_bam(rl, depth)
    lpmon.reset()
    import aldy.sam

    samples = []
    orig_mc = aldy.sam.Sample._make_coverage

    def mc(self, norm, muts):
        samples.append(self)
        return orig_mc(self, norm, muts)

    aldy.sam.Sample._make_coverage = mc
    try:
        with CnCapture() as cap, RealignerRecorder() as rr:
            try:
                out = _sim.genotype(db, bam, prof_bam, None, **(params or {}))
                err = None
            except Exception as e:
                out, err = None, e
    finally:
        aldy.sam.Sample._make_coverage = orig_mc
    raw = check_indel_bookkeeping(res, samples[-1], rr, desc) if samples else {}
    # indelpost treats catalogued indels with another indel of the same haplotype close by as one
    # complex event and aldy then skips them ("subsumed indel"): zero support for a planted indel
    subsumed = []
    if samples:
        sites = samples[-1]._indel_sites
        for c in copies:
            vs = sorted(tables.allele_variants(g, c[0], c[1]))
            indels = [m for m in vs if m.op[:3] in ("ins", "del")]
            for m in indels:
                if sites.get((m.pos, m.op), [0, 1])[1] != 0:
                    continue
                r = raw.get((m.pos, m.op))
                if r is not None and "phased" in r:
                    # exact observable: the realigner phased the indel into an event of another net length and
                    # aldy's "subsumed indel" branch skipped it (no counts were taken)
                    net = (len(r["ref"]) - len(r["alt"]))
                    if "count" not in r and r["phased"][0] - r["phased"][1] != net:
                        subsumed.append(str(m))
                elif any(o != m and abs(o.pos - m.pos) <= 25 for o in indels):
                    subsumed.append(str(m))
    res._subsumed = subsumed
    # ground truth for indel support: reads that really carry the indel in their alignment
    miscount = []
    if samples:
        from ..gen import reads as _reads

        sites = samples[-1]._indel_sites
        planted_indels = {m for c in copies for m in tables.allele_variants(g, c[0], c[1])
                          if m.op[:3] in ("ins", "del") and "ins" not in m.op[3:]}
        for m in planted_indels:
            subs, dels, ins = _reads.left_align(db.ref, _reads.edits_from_variants([m]))
            truth = 0
            for r in rds:
                c = r["start"]
                for op, n in r["cigar"]:
                    if op == 2 and dels and (c, c + n) == dels[0]:
                        truth += 1
                    if op == 1 and ins and (c - 1) in ins and n == len(ins[c - 1]):
                        truth += 1
                    if op in (0, 2, 7, 8):
                        c += n
            on = sites.get((m.pos, m.op), [0, 0])[1]
            if (params or {}).get("indelpost") is False:
                # realigner off: every read that carries the indel in any equivalent placement supports it
                res.check("fast_path_indel_support", abs(on - truth) <= max(2, 0.05 * truth),
                          "with the realigner off the support of a planted indel is not the number of reads carrying it",
                          indel=str(m), reads_carrying_it=truth, support=on, **desc)
            if "count" in raw.get((m.pos, m.op), {}):
                on = raw[m.pos, m.op]["count"][1]  # the realigner's own count, before aldy's bookkeeping
            # (zero support is a different thing - the indel was skipped, not miscounted)
            if str(m) not in subsumed and on > 0 and abs(on - truth) > max(3, 0.2 * truth):
                miscount.append({"indel": str(m), "reads_carrying_it": truth, "support_reported_by_realigner": on})
    res._miscount = miscount
    # catalogued indels whose placement is not unique (repeat context): the aligner's left-aligned
    # placement differs from the catalogue's, and the per-base evidence at the catalogue's site is
    # then inconsistent with the realigner's support for the indel
    shifted = []
    from ..gen import reads as _reads2

    for c in copies:
        for m in tables.allele_variants(g, c[0], c[1]):
            if m.op[:3] in ("ins", "del") and "ins" not in m.op[3:]:
                e0 = _reads2.edits_from_variants([m])
                e1 = _reads2.left_align(db.ref, e0)
                if (e0[1], e0[2]) != (e1[1], e1[2]):
                    shifted.append(str(m))
    res._shifted = sorted(set(shifted))
    for rec in lpmon.RECORDS:
        for p in rec.problems:
            res.check("lp_" + p.clause, False, p.what, **p.w)
    dele = g.deletion_allele()
    planted_cfg = tuple(sorted(c for c in tables.cn_list(g, copies)))
    planted_majors = collections.Counter(c[0] for c in copies if c[0] != dele)
    pre = True
    if g.do_copy_number:
        if not cap.calls:
            # the structure model was never reached (the run ended before it): decide the precondition on the
            # ideal region depths of the planted structure (exact tiling gives exactly these)
            import math

            from aldy.profile import Profile as _P

            cfgs_ = [g.alleles[c[0]].cn_config for c in copies]
            cfgs_ = [c for c in cfgs_ if c != dele]
            cfgs_ = sorted(cfgs_, key=lambda c: c == "1")
            full = cfgs_[:2] + ([dele] * (2 - len(cfgs_[:2])) if dele else []) + cfgs_[2:]
            depths = tables.region_depths(g, full)
            mx = max([v for ab in depths.values() for v in ab] + [1])
            best, _ = cnref.table(g, _P("x", cn_parsimony=1.0 if False else 0.5), g.cn_configs, 1 + math.ceil(mx), depths, None)
            if not best or planted_cfg not in best or best[planted_cfg] > min(best.values()) + 1e-6:
                pre = False
            desc = dict(desc, structure_model_not_reached=True)
        else:
            cfgs, max_cn, depths, fs, prof = cap.calls[0]
            # against the catalogue's configurations, not the candidates the run filtered them to
            best, _ = cnref.table(g, prof, g.cn_configs, max_cn, depths, fs)
            if not best or planted_cfg not in best or best[planted_cfg] > min(best.values()) + 1e-6:
                pre = False
            desc = dict(desc, region_depths={r: [round(a, 3), round(b, 3)] for r, (a, b) in depths.items()})
    res.check("precondition", True)
    if not pre:
        res.count("precondition_not_met")
        return False
    if err is not None:
        res.check("planted_majors_among_best", False,
                  f"genotyping an error-free sample failed: {err!r}", **desc)
        return True
    sols = list(out.values())[0]
    res._sols = sorted(
        (tuple(sorted((a.major, a.minor, tuple(sorted(g.get_refseq(m) for m in a.added)),
                       tuple(sorted(g.get_refseq(m) for m in a.missing))) for a in s.solution)),
         tuple(sorted(s.major_solution.cn_solution.solution.items()))) for s in sols)
    reported = [collections.Counter(a.major for a in s.solution) for s in sols]
    mech = None
    if planted_majors not in reported and sols and g.do_copy_number:
        # every reported structure reads exactly like the planted one in all regions the structure model looks at
        # (a partial deletion confined to other regions): depth cannot tell them apart, and the structure that lacks
        # regions has less evidence to explain
        from aldy.solutions import CNSolution as _CN

        def seen_by_model(cn):
            return {(gi, r): cn.region_cn[gi].get(r, 0) for gi in range(len(cn.region_cn)) for r in g.unique_regions}

        try:
            want_v = seen_by_model(_CN(g, 0, list(planted_cfg) + ([g.alleles[dele].cn_config] * max(0, 2 - len(planted_cfg))
                                                                 if dele else [])))
            if all(tuple(sorted(s.major_solution.cn_solution.solution.elements())) != planted_cfg
                   and seen_by_model(s.major_solution.cn_solution) == want_v for s in sols):
                mech = "depth-indistinguishable-partial-structure"
        except Exception:
            mech = None
    res.check("planted_majors_among_best", planted_majors in reported,
              "the planted combination of major alleles is not among the best solutions", mech=mech,
              reported=[_sim.solution_summary(s) for s in sols][:4], **desc)
    # the printed diplotype of a solution that has the planted majors names exactly the planted combination: every
    # copy once (fusion suffix removed), the whole-gene deletion for each missing haplotype
    n_called = sum(planted_majors.values())
    want_names = collections.Counter(m.split("#")[0] for m in planted_majors.elements())
    if dele and n_called < 2:
        want_names[dele] += 2 - n_called
    for s in sols:
        if collections.Counter(a.major for a in s.solution) != planted_majors:
            continue
        dip = s.get_major_diplotype()
        toks = [t for part in dip.split(" / ") for t in part.split(" + ") if t.strip()]
        got_names = collections.Counter(t.strip().lstrip("*").split("+")[0] for t in toks)
        res.check("diplotype_names_planted", got_names == want_names,
                  "the printed diplotype does not name the planted combination of major alleles",
                  diplotype=dip, expected=sorted(want_names.elements()), **desc)
    want = planted_variants(g, [c for c in copies if c[0] != dele])
    for s in sols:
        if tuple(sorted(s.major_solution.cn_solution.solution.elements())) != planted_cfg:
            res.count("best_solution_with_other_structure")
            continue
        have = collections.Counter()
        for a in s.solution:
            for m in (tables.allele_variants(g, a.major, a.minor) | set(a.added)) - set(a.missing):
                have[m] += 1
        res.check("variants_exact", have == want,
                  "a best solution's variants (with multiplicity) differ from the simulated haplotypes'",
                  surplus=[str(m) for m in (have - want).elements()],
                  lacking=[str(m) for m in (want - have).elements()],
                  solution=_sim.solution_summary(s), **desc)
    return True


def run(case):
    util.import_aldy()
    lpmon.install()
    res = Res()
    fps = []
    if case["kind"] == "gen":
        for k in range(case["n"]):
            rng = util.rng_for("c01", case["seed"], case["batch"], k)
            dbseed = rng.randrange(30)
            genome = rng.choice(["hg19", "hg38"])
            db = _sim.gen_db(dbseed, genome, pseudogene=None, want_cn=rng.random() < 0.75)
            copies = _sim.random_genotype(db, rng, allow_structural=db.gene.do_copy_number)
            if not db.gene.do_copy_number:
                copies = copies[:2] if len(copies) >= 2 else copies * 2
            rl = rng.choice([50, 60, 100, 100, 150, 250])
            depth = rng.choice([20, 25, 30, 50])
            desc = {"db": db.label, "strand": db.gene.strand, "pseudogene": bool(db.gene.pseudogenes),
                    "planted": [list(c) for c in copies], "read_length": rl, "depth": depth}
            decided = check_sample(res, db, copies, rl, depth, desc)
            res.count("samples")
            if decided and any(tables.allele_variants(db.gene, *c[:2]) or db.gene.alleles[c[0]].cn_config != "1"
                               for c in copies):
                fps.append(util.fingerprint(desc))
                if res.sample is None and case["batch"] < 3:
                    res.sample = desc
    elif case["kind"] == "multisite":
        # a site with two catalogued variants (second alternative base, or an insertion on a substitution's
        # position): one copy carries one of them, another copy is reference (or carries the other one) there
        rng = util.rng_for("c01m", case["seed"], case["k"])
        genome = rng.choice(["hg19", "hg38"])
        found = None
        for dbseed in rng.sample(range(60), 60):
            db = _sim.gen_db(dbseed, genome, pseudogene=None, want_cn=False, hostile=1.0)
            g_ = db.gene
            bypos = collections.defaultdict(list)
            for (p_, o_) in g_.mutations:
                bypos[p_].append(o_)
            multi = [p_ for p_, ops in bypos.items() if len(ops) > 1]
            owners = []
            for c in tables.all_copies(g_):
                if g_.alleles[c[0]].cn_config != "1":
                    continue
                vs = tables.allele_variants(g_, *c)
                if any(m.pos in multi for m in vs) and all(
                        not ("ins" in m.op[3:] and m.op.startswith("del")) and not (">" in m.op and len(m.op) > 3)
                        for m in vs):
                    owners.append(c)
            if owners:
                found = (db, owners, set(multi))
                break
        if not found:
            res.count("skipped_no_multi_variant_site")
        else:
            db, owners, multi = found
            first = rng.choice(owners)
            others = [c for c in owners if c != first and {m.pos for m in tables.allele_variants(db.gene, *c)} & multi]
            second = rng.choice(others) if others and rng.random() < 0.4 else db.reference_copy()
            copies = [first, second] + ([db.reference_copy()] if False else [])
            rl, depth = rng.choice([100, 150]), rng.choice([20, 30])
            desc = {"db": db.label, "strand": db.gene.strand, "planted": [list(c) for c in copies],
                    "read_length": rl, "depth": depth, "multi_variant_sites": sorted(multi)[:4]}
            decided = check_sample(res, db, copies, rl, depth, desc)
            res.count("samples")
            res.count("multisite_samples")
            if decided:
                fps.append(util.fingerprint(desc))
    elif case["kind"] == "twin":
        # an allele with the same inserted bases at two sites 18-45 bases apart (reads span both), heterozygous
        # with a reference copy or homozygous
        rng = util.rng_for("c01t", case["seed"], case["k"])
        genome = rng.choice(["hg19", "hg38"])
        found = None
        for dbseed in rng.sample(range(60), 60):
            db = _sim.gen_db(dbseed, genome, pseudogene=None, want_cn=False, hostile=1.0,
                             kinds=["snp", "snp", "ins", "ins", "del"])
            for an, a in db.gene.alleles.items():
                ins = collections.Counter(m.op for m in a.func_muts if m.op.startswith("ins"))
                if a.cn_config == "1" and any(v >= 2 for v in ins.values()):
                    found = (db, an)
                    break
            if found:
                break
        if not found:
            res.count("skipped_no_twin_insertion_database")
        else:
            db, an = found
            twin = db.first_minor(an)
            copies = [twin, twin] if rng.random() < 0.4 else [twin, db.reference_copy()]
            rl, depth = rng.choice([100, 150, 250]), rng.choice([20, 30])
            desc = {"db": db.label, "strand": db.gene.strand, "planted": [list(c) for c in copies],
                    "read_length": rl, "depth": depth, "twin_insertion_allele": an}
            decided = check_sample(res, db, copies, rl, depth, desc)
            res.count("samples")
            res.count("twin_insertion_samples")
            if decided:
                fps.append(util.fingerprint(desc))
    else:
        rng = util.rng_for("c01s", case["seed"], case["k"])
        genome = rng.choice(["hg19", "hg38"])
        db = _sim.shipped_db(case["gene"], genome)
        copies = _sim.random_genotype(db, rng, n=rng.choice([2, 2, 3]) if db.gene.do_copy_number else 2,
                                      allow_structural=db.gene.do_copy_number)
        # shipped alleles may contain deletion-insertions / silent MNPs: skip those
        ok = all(not ("ins" in m.op[3:] and m.op.startswith("del")) and not (">" in m.op and len(m.op) > 3
                                                                              and not db.gene.is_functional(m))
                 for c in copies for m in tables.allele_variants(db.gene, *c[:2]))
        desc = {"db": db.label, "strand": db.gene.strand, "planted": [list(c) for c in copies],
                "read_length": 100, "depth": 20}
        if ok:
            decided = check_sample(res, db, copies, 100, 20, desc)
            res.count("samples")
            if decided:
                fps.append(util.fingerprint(desc))
                res.sample = desc
        else:
            res.count("skipped_unplantable_variant_kind")
    res.fp = util.fingerprint(fps)
    res.nontrivial = bool(fps)
    res.counters["distinct_nontrivial_samples"] = len(set(fps))
    return res


def summarize(results):
    return {"distinct_nontrivial_samples": sum(r["counters"].get("distinct_nontrivial_samples", 0) for r in results)}
