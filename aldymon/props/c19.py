"""C19 - no genotype is reported from no data.

Monitor: wrapper around genotype() (return value / exception) and parser of the output file, on
simulated BAM files whose reads avoid the gene locus, cover it below the minimum, cover only the
pseudogene, or avoid the neutral region; with a BAM as profile, a profile file, and a user-supplied
structure; all output formats.
"""
import os

from .. import util
from ..gen import reads, tables
from ..util import Res
from . import _sim

ID = "C19"
RULE = (
    "one case = (database, build, data situation in {no locus reads, depth below minimum, reads only in the "
    "flank just outside the locus (inside the padding of the indexed query), reads only on another contig whose "
    "name ends with the gene's (unindexed text SAM), pseudogene only, no neutral reads, adequate}, profile route in {BAM profile, profile file, "
    "user-supplied structure}, output format in {none, .aldy, .vcf, .simple}); non-trivial = every "
    "case other than 'adequate'; distinct by the tuple"
)
ASSUMPTIONS = [
    "'empty result line in simple output' is read as: the output holds no allele call for that gene and, if anything was written for it, the line is terminated",
    "user-supplied structure with pseudogene-only reads is outside the statement (the locus is covered)",
]
MIN = {
    "quick": {"no_call_without_data": 60, "error_says_so": 60, "output_has_no_call": 40,
              "pseudogene_only_is_deletion": 8, "adequate_is_called": 10},
    "thorough": {"no_call_without_data": 1200, "error_says_so": 1200, "output_has_no_call": 800,
                 "pseudogene_only_is_deletion": 100, "adequate_is_called": 200},
}
CASE_TIMEOUT = {"quick": 900, "thorough": 3000}
SITUATIONS = ["no_locus_reads", "low_depth", "below_configured_minimum", "gap_only", "no_reads_min0",
              "flank_only", "twin_contig_sam", "pseudogene_only", "no_neutral", "adequate"]
ROUTES = ["bam_profile", "profile_file", "user_structure"]
OUTPUTS = [None, "aldy", "vcf", "simple"]


def plan(tier, seed):
    cases = []
    n = 3 if tier == "quick" else 40
    for rep in range(n):
        for sit in SITUATIONS:
            for route in ROUTES:
                for out in OUTPUTS:
                    cases.append({"seed": seed, "rep": rep, "situation": sit, "route": route, "output": out})
    return cases


def has_call(text, gene_name):
    """Does an output text contain a star-allele call?"""
    for ln in text.split("\n"):
        if ln.startswith("#CHROM"):
            if any("*" in c for c in ln.split("\t")[9:]):
                return True  # a VCF sample column names a diplotype
            continue
        if "*" in ln and not ln.startswith("##") and not ln.startswith("#Sample"):
            return True
    return False


def run(case):
    util.import_aldy()
    from aldy.common import AldyException

    res = Res()
    rng = util.rng_for("c19", case["seed"], case["rep"], case["situation"], case["route"], case["output"])
    shipped = rng.random() < 0.25
    genome = rng.choice(["hg19", "hg38"])
    if shipped:
        db = _sim.shipped_db(rng.choice(["cyp2a6", "gstm1", "cyp2c19", "nudt15"]), genome)
    else:
        db = _sim.gen_db(rng.randrange(30), genome, want_cn=True, pseudogene=True)
        for _ in range(10):
            if db.gene.deletion_allele() and db.gene.pseudogenes:
                break
            db = _sim.gen_db(rng.randrange(30), genome, want_cn=True, pseudogene=True)
    g = db.gene
    sit, route, outk = case["situation"], case["route"], case["output"]
    dele = g.deletion_allele()
    rl, depth = 100, 20
    copies = _sim.random_genotype(db, rng, n=2, allow_structural=False)
    haps = reads.haplotypes_for(g, copies)
    neutral = db.neutral
    gap_reads = []
    if sit in ("no_locus_reads", "no_reads_min0"):
        haps = []
    elif sit == "gap_only":
        # reads only between the gene and the pseudogene locus: inside the wide region, in no region
        if not g.pseudogenes:
            res.fp, res.nontrivial = util.fingerprint(case), False
            res.count("skipped_no_pseudogene")
            return res
        la, lb = reads.locus(g, 0), reads.locus(g, 1)
        lo, hi = (la[1], lb[0]) if la[1] <= lb[0] else (lb[1], la[0])
        haps = []
        for k, (s_, e_, _, _) in enumerate(reads.tile_segment(lo + rl + 5, hi - rl - 5, rl, 5, True, True)):
            r_ = reads.make_read(db.ref, ({}, [], {}), s_, e_, f"gap{k}")
            if r_:
                r_["hap"] = 9
                gap_reads.append(r_)
    elif sit == "flank_only":
        # reads right next to the locus: inside the 500 bp the indexed query is padded with, outside the locus
        w = g.get_wide_region()
        lo, hi = w.start - 470, w.start - 3
        if lo < 10 or (neutral and not (neutral[1] < lo or neutral[0] > hi)):
            res.fp, res.nontrivial = util.fingerprint(case), False
            res.count("skipped_no_room")
            return res
        haps = []
        for k, (s_, e_, _, _) in enumerate(reads.tile_segment(lo, hi, rl, 3, True, True)):
            r_ = reads.make_read(db.ref, ({}, [], {}), s_, e_, f"flank{k}")
            if r_ and r_["start"] + rl < w.start:
                r_["hap"] = 9
                gap_reads.append(r_)
    elif sit == "pseudogene_only":
        if not (dele and g.pseudogenes):
            res.count("skipped_no_deletion_allele")
            res.fp, res.nontrivial = util.fingerprint(case), False
            return res
        haps = reads.haplotypes_for(g, [])
    elif sit == "no_neutral":
        neutral = None
    rds = reads.simulate(g, haps, rl=rl, depth=depth, ref=db.ref, neutral=neutral, rng=rng) + gap_reads
    params = {}
    if sit == "below_configured_minimum":
        # two copies at 20x each (about 40x over the locus), configured minimum well above that
        params["min_avg_coverage"] = rng.choice([80, "90", 120.0])
    if sit in ("gap_only", "no_reads_min0"):
        params["min_avg_coverage"] = 0
    if sit == "low_depth":
        # keep roughly every 25th read of the locus: average depth over covered positions ~1
        kept = []
        for i, r in enumerate(rds):
            if r.get("hap") == -1 or i % 25 == 0:
                kept.append(r)
        rds = kept
    elif sit == "sparse_locus":
        # a handful of reads in one corner of the locus only
        loc = [r for r in rds if r.get("hap") != -1]
        rds = [r for r in rds if r.get("hap") == -1] + loc[:3]
    scratch = util.scratch_dir()
    if sit == "twin_contig_sam":
        # whole-genome style text SAM without index: all locus reads sit at the gene's coordinates on another
        # contig whose name merely ends with the gene's contig name (7 / 17, 1 / 11 ...)
        twin = "1" + g.chr
        keep_neutral = rng.random() < 0.5
        for r in rds:
            if not (keep_neutral and r.get("hap") == -1):
                r["tid"] = 1
        bam = reads.write_bam(os.path.join(scratch, "s.sam"), g.chr, db.contig_len, rds,
                              extra_contigs=[(twin, db.contig_len)], fmt="sam")
    else:
        bam = reads.write_bam(os.path.join(scratch, "s.bam"), g.chr, db.contig_len, rds)
    profile = db.ref_bam(rl, depth)
    if route == "profile_file":
        import yaml
        from aldy.profile import Profile

        regions = {(g.name, r, gi): rng_ for gi, gr in enumerate(g.regions) for r, rng_ in gr.items()}
        d = Profile.get_sam_profile_data(profile, regions=regions, genome=genome, cn_region=db.cn_region())
        ypath = os.path.join(scratch, "p.profile")
        with open(ypath, "w") as f:
            f.write(yaml.dump(d, default_flow_style=None))
        profile = ypath
    elif route == "user_structure":
        params["cn_solution"] = ["1", "1"]
    out_path = None
    fh = None
    if outk:
        out_path = os.path.join(scratch, f"out.{outk}")
        fh = open(out_path, "w")
    desc = {"db": db.label, "situation": sit, "route": route, "output": outk}
    err = result = None
    try:
        if route == "profile_file":
            from aldy.genotype import genotype as gt

            result = gt(db.path, bam, profile, fh, genome=genome, **params)
        else:
            result = _sim.genotype(db, bam, profile, fh, **params)
    except AldyException as e:
        err = e
    except Exception as e:
        err = e
        res.check("error_is_explanatory", False, f"run ended with an unexpected exception type: {e!r}", **desc)
    finally:
        if fh:
            fh.close()
    text = ""
    if out_path:
        with open(out_path) as f:
            text = f.read()
    sols = list(result.values())[0] if result else []
    if sit in ("gap_only", "no_reads_min0") and (route == "user_structure" or not g.do_copy_number
                                                   or not g.pseudogenes):
        # with the average-depth minimum set to 0 only the structure stage can refuse; it does not run here
        res.count("outside_statement")
        res.fp, res.nontrivial = util.fingerprint(case), False
        return res
    expect_no_call = sit in ("no_locus_reads", "low_depth", "below_configured_minimum", "gap_only", "no_reads_min0",
                             "flank_only", "twin_contig_sam") or \
        (sit == "no_neutral" and route != "user_structure")
    if sit == "pseudogene_only" and route == "user_structure":
        res.count("outside_statement")
    elif expect_no_call:
        mech = None
        if route == "user_structure" and sols:
            mech = "depth-guard-skipped-with-user-structure"
        res.check("no_call_without_data", not sols,
                  "a star-allele call was returned although the data cannot support one",
                  mech=mech, called=[s.get_major_diplotype() for s in sols], **desc)
        res.check("error_says_so", isinstance(err, AldyException) and len(str(err)) > 10,
                  "the run did not end with an explanatory error", mech=mech, error=repr(err), **desc)
        if outk:
            res.check("output_has_no_call", not has_call(text, g.name),
                      "the output file states a star-allele call", mech=mech, text=text[:300], **desc)
            if outk == "simple":
                res.check("simple_line_terminated", text == "" or text.endswith("\n"),
                          "simple output holds an unterminated partial line for the failed gene",
                          text=text[:200], **desc)
    elif sit == "pseudogene_only":
        # the whole-gene deletion must be reported; further tied solutions may only use structures that leave no
        # gene copy in any region the structure model looks at (a database may define a partial deletion that
        # the model cannot tell from the whole-gene one)
        def gene_free(s):
            for cfg, n in s.major_solution.cn_solution.solution.items():
                cn0 = g.cn_configs[cfg].cn[0]
                if any(cn0.get(r, 0) > 0 for r in g.unique_regions):
                    return False
            return True

        ok = bool(sols) and all(gene_free(s) for s in sols) and \
            any(len(s.solution) == 0 and s.get_major_diplotype().replace(" ", "") == f"*{dele}/*{dele}" for s in sols)
        res.check("pseudogene_only_is_deletion", ok,
                  "a sample whose reads cover only the pseudogene is not called as whole-gene deletion",
                  called=[s.get_major_diplotype() for s in sols], error=repr(err), **desc)
    else:  # adequate, or user structure without neutral reads
        res.check("adequate_is_called", bool(sols) and err is None, "an adequately covered sample was not called",
                  error=repr(err), **desc)
        if outk and sols:
            res.check("adequate_output_has_call", has_call(text, g.name), "output lacks the call", **desc)
    res.fp = util.fingerprint([case["situation"], case["route"], case["output"], db.label])
    res.nontrivial = sit != "adequate"
    if case["rep"] == 0 and outk == "simple":
        res.sample = dict(desc, error=str(err)[:120] if err else None, output=text[:80])
    return res
