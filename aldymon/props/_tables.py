"""A slice of the C02-C04 workloads, used by C05 to make aldy build real models."""
from .. import util
from ..gen import tables


def random_copies(g, rng, n=None, allow_fused=True):
    copies = []
    n = n or rng.choice([1, 2, 2, 2, 3, 3, 4])
    dele = g.deletion_allele()
    alls = [c for c in tables.all_copies(g) if c[0] != dele]
    normal = [c for c in alls if g.alleles[c[0]].cn_config == "1"]
    fused = [c for c in alls if g.alleles[c[0]].cn_config != "1"]
    for i in range(n):
        if fused and allow_fused and i < 2 and rng.random() < 0.2:
            copies.append(rng.choice(fused))
        else:
            copies.append(rng.choice(normal))
    return copies


def run_random_stage_calls(seed, k):
    from aldy.cn import solve_cn_model
    from aldy.major import estimate_major
    from aldy.minor import estimate_minor
    from aldy.profile import Profile
    from aldy.solutions import CNSolution

    rng = util.rng_for("stagecalls", seed, k)
    gname = rng.choice(["toy", "toy", "toy", "cyp2c19", "cyp2a6", "tpmt", "cyp2d6"])
    genome = rng.choice(["hg19", "hg38"])
    g = tables.gene(gname, genome)
    gap = rng.choice([0, 0, 0.1, 0.3])
    copies = random_copies(g, rng, n=rng.choice([1, 2, 2, 3]) if gname != "toy" else None)
    depth = rng.choice([10, 20, 30])
    eps = rng.choice([0, 0, 0.1, 0.3])
    counts = tables.noisy(tables.planted_counts(g, copies, depth), rng, eps)
    prof = Profile("test", gap=gap)
    cov = tables.make_coverage(g, counts, profile=prof)
    calls = 0
    desc = {"gene": gname, "genome": genome, "copies": copies, "gap": gap, "eps": eps}
    if g.do_copy_number:
        depths = tables.region_depths(g, tables.cn_list(g, copies))
        depths = {r: (max(0, a + rng.uniform(-0.3, 0.3)), max(0, b + rng.uniform(-0.3, 0.3)))
                  for r, (a, b) in depths.items()}
        solve_cn_model(g, prof, g.cn_configs, rng.choice([3, 4, 5]), depths, "any")
        calls += 1
    cn = CNSolution(g, 0, tables.cn_list(g, copies))
    majors = estimate_major(g, cov, cn, "any")
    calls += 1
    if majors and len(majors) <= 6:
        estimate_minor(g, cov, majors, "any", max_solutions=rng.choice([1, 1, 3]))
        calls += len(majors)
    desc["calls"] = calls
    return desc
