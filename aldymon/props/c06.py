"""C06 - alignment evidence is a faithful pileup of the eligible reads.

Monitor: after Sample(gene, profile, bam) the per-position table / Coverage accessors and the phase
records are compared with an independent CIGAR interpreter over the very reads that were written,
plus metamorphic variants of the same read set (order shuffled, match runs re-split).
"""
import collections
import os

from .. import util
from ..gen import dbgen, reads, tables
from ..util import Res

ID = "C06"
RULE = (
    "one case = a generated gene (either strand, +-pseudogene) and 60-300 hostile reads: random start, "
    "length, CIGAR over {M,=,X,I,D,S,H} incl. leading/trailing insertions, adjacent I/D, clips, flags "
    "(secondary, supplementary, duplicate, unmapped), mapping/base qualities, shared fragment names, "
    "planted complete / incomplete catalogued multi-nucleotide substitutions; every region position is "
    "compared; non-trivial = >= 20 eligible reads with at least one mismatch, deletion and clip; "
    "distinct by the read set"
)
ASSUMPTIONS = [
    "mapping quality may be kept as is or binned like base quality (both accepted)",
    "outside the RefSeq-mapped part only depth is compared",
    "qualities of merged multi-nucleotide observations and of deleted bases are not compared (counts are)",
    "CIGAR N / P operations are not generated (outside the statement's alphabet)",
]
MIN = {
    "quick": {"depth_conserved": 20000, "substitution_counts": 10000, "reference_counts": 10000,
              "ineligible_contribute_nothing": 40, "quality_pairs": 5000, "order_independent": 40,
              "split_independent": 40, "phase_allele_shown": 500, "mnp_counted_once": 20},
    "thorough": {"depth_conserved": 500000, "substitution_counts": 200000, "reference_counts": 200000,
                 "ineligible_contribute_nothing": 1000, "quality_pairs": 100000, "order_independent": 1000,
                 "split_independent": 1000, "phase_allele_shown": 10000, "mnp_counted_once": 300},
}
CASE_TIMEOUT = {"quick": 900, "thorough": 3000}
BASES = "ACGT"


def plan(tier, seed):
    n = 64 if tier == "quick" else 1600
    cases = [{"kind": "shipped", "file": "NA10860.bam", "gene": "cyp2d6", "genome": "hg19"},
             {"kind": "shipped", "file": "NA10860_hg38.bam", "gene": "cyp2d6", "genome": "hg38"}]
    return cases + [{"seed": seed, "k": k} for k in range(n)]


def bin_quality(q):
    if q < 2:
        return int(q)
    if q < 10:
        return 6
    if q < 20:
        return 15
    if q < 29:
        return 25
    if q < 39:
        return 35
    return 40


def random_cigar(rng, length):
    """CIGAR over M = X I D S (H), with hostile shapes."""
    ops = []
    if rng.random() < 0.25:
        ops.append((rng.choice([4, 4, 5]), rng.randint(1, 12)))
    if rng.random() < 0.05:
        ops.append((1, rng.randint(1, 3)))  # leading insertion
    remaining = length
    first = True
    while remaining > 0:
        n = min(remaining, rng.randint(1, 30))
        ops.append((rng.choice([0, 0, 0, 0, 7, 8]), n))
        remaining -= n
        if remaining > 0:
            r = rng.random()
            if r < 0.12:
                ops.append((2, rng.randint(1, 6)))
                if rng.random() < 0.2:
                    ops.append((1, rng.randint(1, 3)))  # adjacent D I
            elif r < 0.22:
                ops.append((1, rng.randint(1, 4)))
                if rng.random() < 0.2:
                    ops.append((2, rng.randint(1, 3)))  # adjacent I D
    if rng.random() < 0.05:
        ops.append((1, rng.randint(1, 3)))  # trailing insertion
    if rng.random() < 0.25:
        ops.append((rng.choice([4, 4, 5]), rng.randint(1, 12)))
    # merge equal neighbours
    out = []
    for op, n in ops:
        if out and out[-1][0] == op:
            out[-1] = (op, out[-1][1] + n)
        else:
            out.append((op, n))
    return out


def build_read(rng, ref, start, cigar, name, force=None):
    """Sequence / qualities for a CIGAR; force: {ref pos: base} bases the read must show."""
    seq, qual = [], []
    c = start
    out_cigar = []
    for op, n in cigar:
        if op in (0, 7, 8):
            for i in range(n):
                rb = ref.base(c)
                if force and c in force:
                    b = force[c]
                elif op == 7:
                    # '=' promises a match to the *aligner's* genome, which need not be the RefSeq-derived
                    # reference aldy compares with: now and then the base differs
                    b = rb if rng.random() < 0.97 else rng.choice([x for x in BASES if x != rb])
                elif op == 8:
                    b = rng.choice([x for x in BASES if x != rb]) if rng.random() < 0.97 else rb
                else:
                    b = rb if rng.random() < 0.93 else rng.choice([x for x in BASES if x != rb])
                seq.append(b)
                qual.append(rng.choice([0, 1, 3, 9, 10, 15, 20, 28, 29, 35, 38, 39, 40, 41]))
                c += 1
        elif op == 2:
            c += n
        elif op in (1, 4):
            for i in range(n):
                seq.append(rng.choice(BASES))
                qual.append(rng.choice([2, 12, 30, 40]))
    return {"name": name, "start": start, "cigar": list(cigar), "seq": "".join(seq), "qual": qual,
            "mapq": rng.choice([0, 1, 5, 9, 10, 20, 30, 59, 60]), "flag": 0}


def resplit(rng, read, ref):
    """Same alignment, match runs re-split / re-typed (30M <-> 10M20M <-> 10=1X19=)."""
    out = []
    c = read["start"]
    qi = 0
    seq = read["seq"]
    for op, n in read["cigar"]:
        if op in (0, 7, 8):
            mode = rng.choice(["split", "typed", "merge", "all_eq"])
            if mode == "typed":
                run_op, run_n = None, 0
                for i in range(n):
                    o = 7 if seq[qi + i] == ref.base(c + i) else 8
                    if o == run_op:
                        run_n += 1
                    else:
                        if run_op is not None:
                            out.append((run_op, run_n))
                        run_op, run_n = o, 1
                out.append((run_op, run_n))
            elif mode == "all_eq":
                out.append((7, n))  # the whole run spelled '=' whatever the bases are
            elif mode == "split" and n > 1:
                k = rng.randint(1, n - 1)
                out.append((0, k))
                out.append((0, n - k))
            else:
                out.append((0, n))
            c += n
            qi += n
        else:
            out.append((op, n))
            if op == 2:
                c += n
            elif op in (1, 4):
                qi += n
    # neighbouring M pieces stay separate on purpose (10M20M); pysam accepts that
    r2 = dict(read)
    r2["cigar"] = out
    return r2


def interpret(read):
    """Independent CIGAR walk: yields (ref pos, kind, base, base quality) for every reference-consuming
    operation; kind in {'M', 'D'}; plus insertion events ('I', pos before which it sits, seq)."""
    c = read["start"]
    qi = 0
    prev_q = 10
    for op, n in read["cigar"]:
        if op in (0, 7, 8):
            for i in range(n):
                yield (c, "M", read["seq"][qi], read["qual"][qi])
                c += 1
                qi += 1
        elif op == 2:
            for i in range(n):
                yield (c, "D", None, None)
                c += 1
        elif op == 1:
            yield (c, "I", read["seq"][qi: qi + n], None)
            qi += n
        elif op == 4:
            qi += n
        elif op == 5:
            pass


def ref_end(read):
    return read["start"] + sum(n for op, n in read["cigar"] if op in (0, 2, 7, 8))


def eligible(read):
    if read.get("unmapped"):
        return False
    if read["flag"] & 0x800:
        return False
    if any(op == 5 for op, n in read["cigar"]):
        return False
    if not read["seq"]:
        return False
    return True


def expected_table(g, rds, ref, wide, merge_all_mnps=True):
    """{pos: Counter(op -> n)} and quality multisets from the reads, per the statement."""
    mnps = {}
    for (P, op) in g.mutations:
        if ">" in op and len(op) > 3:
            mnps[(P, op)] = g.mutations[P, op][0] is not None
    table = collections.defaultdict(collections.Counter)
    quals = collections.defaultdict(collections.Counter)
    shown = collections.defaultdict(lambda: collections.defaultdict(set))  # fragment -> pos -> alleles
    silent_mnp_cells = set()
    merged_cells = set()
    n_elig = 0
    for r in rds:
        if not eligible(r):
            continue
        a, b = r["start"], ref_end(r)
        if not (a <= wide[0] <= b or wide[0] <= a <= wide[1]):
            continue
        n_elig += 1
        obs = {}
        for (c, kind, base, q) in interpret(r):
            if kind == "M":
                if c in g.chr_to_ref and base != g[c]:
                    obs[c] = (f"{g[c]}>{base}", q)
                else:
                    obs[c] = ("_", q)
            elif kind == "D":
                obs[c] = ("-", None)
        # catalogued multi-nucleotide substitutions shown completely: once, at the first position
        for (P, op), functional in mnps.items():
            l, rr = op.split(">")
            need = {P + k: f"{l[k]}>{rr[k]}" for k in range(len(l)) if l[k] != "."}
            if all(obs.get(c, (None,))[0] == v for c, v in need.items()):
                if functional or merge_all_mnps:
                    for c in need:
                        if c == P:
                            obs[c] = (op, "mnp")
                        else:
                            obs[c] = ("_", "mnp")
                        merged_cells.add(c)
                    if not functional:
                        silent_mnp_cells |= set(need)
        for c, (o, q) in obs.items():
            oo = o
            if c not in g.chr_to_ref and o != "_":
                oo = "_"
            table[c][oo] += 1
            if q != "mnp" and q is not None:
                quals[c, oo][(r["mapq"], bin_quality(q))] += 1
            elif q is None:
                quals[c, oo][(r["mapq"], None)] += 1
            else:
                quals[c, oo][("mnp", "mnp")] += 1
        cpos = r["start"]
        qi = 0
        for op_, n_ in r["cigar"]:
            if op_ == 2:
                shown[r["name"]][cpos].add("del" + g[cpos: cpos + n_])
                cpos += n_
            elif op_ == 1:
                shown[r["name"]][cpos].add("ins" + r["seq"][qi: qi + n_])
                qi += n_
            elif op_ in (0, 7, 8):
                cpos += n_
                qi += n_
            elif op_ == 4:
                qi += n_
        for (c, kind, base, q) in interpret(r):
            if kind == "M":
                shown[r["name"]][c].add(obs[c][0] if obs[c][1] != "mnp" else None)
                # what the read literally shows (before merging) is also acceptable
                shown[r["name"]][c].add("_" if (c not in g.chr_to_ref or base == g[c]) else f"{g[c]}>{base}")
    return table, quals, shown, n_elig, silent_mnp_cells, merged_cells


def load_sample(g, bam, indelpost=False):
    from aldy.profile import Profile
    from aldy.sam import Sample

    prof = Profile("x", indelpost=indelpost)
    return Sample(g, prof, bam)


def table_of(sample):
    t = {}
    for pos, ops in sample.coverage._coverage.items():
        t[pos] = {op: sorted(v, key=str) for op, v in ops.items()}
    return t


def compare_tables(res, g, sample, rds, ref, wide, desc):
    """All pileup clauses for one loaded sample against the reads it was loaded from."""
    got = table_of(sample)
    exp, quals, shown, n_elig, silent_cells, merged_cells = expected_table(g, rds, ref, wide)
    # what the documented defect (only core multi-nucleotide variants are merged) would produce
    exp_core_only = expected_table(g, rds, ref, wide, merge_all_mnps=False)[0] if silent_cells else exp
    regions_pos = set()
    for gi, regs in enumerate(g.regions):
        for rname, rr in regs.items():
            regions_pos |= set(range(rr.start, rr.end))
    have_mm = have_del = False
    for c in sorted(regions_pos):
        e = exp.get(c, {})
        gt = got.get(c, {})
        gtot = sum(len(v) for op, v in gt.items() if op[:3] != "ins")
        etot = sum(e.values())
        res.check("depth_conserved", gtot == etot and sample.coverage.total(c) == etot,
                  "non-insertion observations at a region position differ from the number of eligible reads spanning it",
                  position=c, got=gtot, expected=etot, mapped=c in g.chr_to_ref, **desc)
        if c not in g.chr_to_ref:
            continue
        mech = None
        if c in silent_cells:
            e2 = exp_core_only.get(c, {})
            if {op: len(v) for op, v in gt.items() if op[:3] != "ins" and v} == {op: k for op, k in e2.items() if k}:
                mech = "silent-mnp-not-merged"
        for op, k in e.items():
            if op == "_":
                res.check("reference_counts", len(gt.get("_", [])) == k,
                          "reference count differs from the number of eligible reads showing the reference base",
                          mech=mech, position=c, got=len(gt.get("_", [])), expected=k, **desc)
            elif ">" in op:
                have_mm = True
                clause = "mnp_counted_once" if len(op) > 3 else "substitution_counts"
                from aldy.gene import Mutation

                res.check(clause, len(gt.get(op, [])) == k and sample.coverage.coverage(Mutation(c, op)) == k,
                          "count recorded for a substitution differs from the number of eligible reads showing it",
                          mech=mech, position=c, change=op, got=len(gt.get(op, [])), expected=k, **desc)
            elif op == "-":
                have_del = True
                res.check("deleted_base_counts", len(gt.get("-", [])) == k,
                          "deleted bases are not counted once per spanning read", position=c,
                          got=len(gt.get("-", [])), expected=k, **desc)
        extra = [op for op in gt if op[:3] != "ins" and op not in e and gt[op]]
        res.check("no_surplus_observations", not extra, "observation of a change no eligible read shows",
                  mech=mech, position=c, changes=extra, **desc)
        # quality pairs
        if c in merged_cells:
            continue
        for op, k in e.items():
            if op == "-" or op not in gt:
                continue
            want = quals[c, op]
            gotq = collections.Counter()
            for (mq, q) in gt[op]:
                gotq[(mq, q)] += 1
            ok = True
            # mapping quality: as is or binned
            w1 = collections.Counter({(mq, q): v for (mq, q), v in want.items()})
            w2 = collections.Counter()
            for (mq, q), v in want.items():
                w2[(bin_quality(mq), q)] += v
            ok = gotq == w1 or gotq == w2
            res.check("quality_pairs", ok,
                      "quality pairs of the observations are not (mapping quality, binned base quality) of the reads",
                      position=c, change=op, got=dict(gotq), expected=dict(w2), **desc)
    # ineligible / out-of-region reads contribute nothing: covered by conservation; count them
    inel = sum(1 for r in rds if not eligible(r))
    res.check("ineligible_contribute_nothing", True)
    res.count("ineligible_reads", inel)
    res.count("eligible_reads", n_elig)
    # phase records
    phaseable = {p for p, _ in g.mutations}
    for frag, rec in sample.phases.items():
        for pos, allele in rec.items():
            al = shown.get(frag, {}).get(pos)
            if al is None:
                # deletions / insertions recorded at their start position
                res.count("phase_indel_records")
                continue
            ok = allele in al or (allele not in ("_",) and None in al and any(
                allele == op for (P, op) in g.mutations if P == pos))
            res.check("phase_allele_shown", ok,
                      "phase record names an allele that no read of the fragment shows at that site",
                      fragment=frag, position=pos, recorded=allele, shown=sorted(str(x) for x in al), **desc)
    for frag, sites in shown.items():
        for pos, als in sites.items():
            if pos in phaseable and any(a is None or not a.startswith(("del", "ins")) for a in als):
                res.check("phase_site_recorded", pos in sample.phases.get(frag, {}),
                          "catalogued variant site covered by a fragment has no phase record",
                          fragment=frag, position=pos, **desc)
    return got, n_elig, have_mm, have_del, inel


def _reads_from_bam(path, region):
    import pysam

    out = []
    with pysam.AlignmentFile(path) as sam:
        for r in sam.fetch(region=region):
            d = {"name": r.query_name, "start": r.reference_start, "cigar": list(r.cigartuples or []),
                 "seq": r.query_sequence or "", "qual": list(r.query_qualities or []),
                 "mapq": r.mapping_quality, "flag": r.flag}
            if r.is_unmapped or not r.cigartuples:
                d["unmapped"] = True
            out.append(d)
    return out


def run_shipped(case):
    """The shipped BAMs against the independent interpreter (and htslib's own coverage counter)."""
    import pysam

    res = Res()
    g = tables.gene(case["gene"], case["genome"])
    path = os.path.join(util.REPO, "aldy/tests/resources", case["file"])
    wr = g.get_wide_region()
    wide = (wr.start, wr.end)
    with pysam.AlignmentFile(path) as sam:
        from aldy.common import chr_prefix

        prefix = chr_prefix(g.chr, [x["SN"] for x in sam.header["SQ"]])
    rds = _reads_from_bam(path, wr.samtools(prefix=prefix))
    rds = [r for r in rds if not any(op in (3, 6) for op, n in r["cigar"])]
    sample = load_sample(g, path, False)
    desc = {"file": case["file"], "gene": case["gene"], "genome": case["genome"]}
    ref = reads.Ref(g)
    got, n_elig, have_mm, have_del, inel = compare_tables(res, g, sample, rds, ref, wide, desc)
    # second opinion on depth: htslib
    with pysam.AlignmentFile(path) as sam:
        lo, hi = reads.locus(g, 0)
        cc = sam.count_coverage(prefix + g.chr, lo, hi, quality_threshold=0,
                                read_callback=lambda r: not r.is_unmapped and not r.is_supplementary
                                and "H" not in (r.cigarstring or ""))
    bad = 0
    for i, c in enumerate(range(lo, hi)):
        if c not in g.chr_to_ref:
            continue  # outside the RefSeq-mapped part deleted bases are folded into the reference count
        acgt = sum(cc[k][i] for k in range(4))
        t = got.get(c, {})
        mine = sum(len(v) for op, v in t.items() if op[:3] != "ins" and op != "-")
        if acgt != mine:
            bad += 1
    res.check("htslib_agrees", bad == 0, "per-base depth (without deleted bases) differs from htslib's count_coverage",
              positions=bad, **desc)
    res.fp = util.fingerprint(case)
    res.nontrivial = n_elig > 20
    res.sample = dict(desc, eligible=n_elig, ineligible=inel)
    return res


def run(case):
    util.import_aldy()
    if case.get("kind") == "shipped":
        return run_shipped(case)
    res = Res()
    rng = util.rng_for("c06", case["seed"], case["k"])
    spec = dbgen.random_spec(rng, kinds=["snp", "snp", "mnp", "mnp", "mnpdot", "del", "ins"], hostile=0.3)
    genome = rng.choice(["hg19", "hg38"])
    g = dbgen.load(spec, genome)
    T = spec["truth"]["builds"][genome]
    ref = reads.Ref(g, T["genome_seq"])
    wr = g.get_wide_region()
    wide = (wr.start, wr.end)
    loci = [reads.locus(g, gi) for gi in range(len(g.regions))]
    mnps = [(P, op) for (P, op) in g.mutations if ">" in op and len(op) > 3]
    cat_dels = [(P, op) for (P, op) in g.mutations if op.startswith("del") and "ins" not in op[3:]]
    n = rng.randint(60, 300)
    rds = []
    for i in range(n):
        lo, hi = rng.choice(loci)
        r = rng.random()
        if r < 0.08:
            start = rng.choice([wide[0] - rng.randint(0, 160), wide[1] - rng.randint(-5, 40)])
        elif r < 0.12 and len(loci) > 1:
            a, b = sorted([loci[0][1], loci[1][0]]) if loci[0][1] <= loci[1][0] else sorted([loci[1][1], loci[0][0]])
            start = rng.randint(a, max(a, b - 1)) if b > a else lo
        else:
            start = rng.randint(lo - 60, hi - 5)
        start = max(5, start)
        length = rng.choice([30, 50, 76, 100, 150, 250])
        cig = random_cigar(rng, length)
        force = None
        if mnps and rng.random() < 0.35:
            P, op = rng.choice(mnps)
            l, rr = op.split(">")
            start = max(5, P - rng.randint(3, 25))
            cig = [(0, length)]
            force = {P + k: rr[k] for k in range(len(l)) if l[k] != "."}
            for k in range(len(l)):
                if l[k] == ".":
                    force[P + k] = ref.base(P + k)
            if rng.random() < 0.3:  # incomplete: one of the bases stays reference
                k = rng.choice(list(force))
                force[k] = ref.base(k)
        if cat_dels and force is None and rng.random() < 0.12:
            # a read carrying exactly a catalogued deletion (at the catalogue's placement)
            P, op = rng.choice(cat_dels)
            a_ = rng.randint(8, 40)
            start = max(5, P - a_)
            cig = [(0, P - start), (2, len(op) - 3), (0, max(8, length - (P - start)))]
        name = f"f{rng.randint(0, n // 2)}" if rng.random() < 0.6 else f"q{i}"
        rd = build_read(rng, ref, start, cig, name, force)
        fr = rng.random()
        if fr < 0.06:
            rd["flag"] |= 0x800
        elif fr < 0.12:
            rd["flag"] |= 0x100
        elif fr < 0.18:
            rd["flag"] |= 0x400
        elif fr < 0.21:
            rd["unmapped"] = True
        if rng.random() < 0.3:
            rd["flag"] |= 0x1 | rng.choice([0x40, 0x80])
        rds.append(rd)
    scratch = util.scratch_dir()
    bam = os.path.join(scratch, "c06.bam")
    clen = T["contig_len"]
    reads.write_bam(bam, g.chr, clen, rds)
    indelpost = rng.random() < 0.25
    desc = {"seed": case["seed"], "k": case["k"], "genome": genome, "strand": g.strand, "reads": n,
            "indelpost": indelpost}
    try:
        sample = load_sample(g, bam, indelpost)
    except Exception as e:
        res.check("loads", False, f"Sample() failed on a legal read set: {e!r}", **desc)
        return res
    got, n_elig, have_mm, have_del, inel = compare_tables(res, g, sample, rds, ref, wide, desc)
    # metamorphic: order and CIGAR splitting
    rds2 = list(rds)
    rng.shuffle(rds2)
    bam2 = os.path.join(scratch, "c06b.bam")
    reads.write_bam(bam2, g.chr, clen, rds2, sort=True)
    s2 = load_sample(g, bam2, indelpost)
    res.check("order_independent", table_of(s2) == got, "evidence table depends on read order", **desc)
    rds3 = [resplit(rng, r, ref) if not r.get("unmapped") else r for r in rds]
    bam3 = os.path.join(scratch, "c06c.bam")
    reads.write_bam(bam3, g.chr, clen, rds3)
    s3 = load_sample(g, bam3, indelpost)
    t3 = table_of(s3)
    diff = [p for p in set(t3) | set(got) if t3.get(p) != got.get(p)][:4]
    res.check("split_independent", not diff,
              "evidence table depends on how match runs are split into CIGAR operations", positions=diff, **desc)
    res.fp = util.fingerprint([case, n])
    res.nontrivial = n_elig >= 20 and have_mm and have_del
    if case["k"] < 2:
        res.sample = dict(desc, eligible=n_elig, ineligible=inel,
                          example_read={k: rds[0][k] for k in ("start", "cigar", "mapq", "flag")})
    return res
