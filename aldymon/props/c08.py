"""C08 - a catalogued variant denotes the same haplotype in every coordinate system.

Monitor: after Gene(...) every loaded variant is applied to the genome-oriented reference and
compared, after orienting to the gene's strand, with the written variant applied to the RefSeq
(ref/catalogue.py sequence model); the arguments handed to the indel realigner (Variant(...)) and
the long-read equivalence table are captured by a wrapper and interpreted the same way.
"""
import os

from .. import util
from ..gen import dbgen, tables
from ..ref import catalogue
from ..util import Res

ID = "C08"
RULE = (
    "shipped: every variant of every allele of the 38 databases x {hg19, hg38} (exhaustive); "
    "generated: random databases with every variant kind, either strand, I/D alignment strings; "
    "one evaluation = one (database, build, written variant); non-trivial = a variant that is mapped "
    "in that build; distinct by (database, build, position, change)"
)
ASSUMPTIONS = [
    "written insertion `insX at p` means X between RefSeq bases p and p+1 (HGVS first coordinate)",
    "variants whose window crosses an alignment gap are compared on the largest gap-free window or counted as skipped",
    "the toy test database is excluded (its variants do not match its own RefSeq)",
]
EXHAUSTIVE = True
MIN = {
    "quick": {"haplotype_equal": 4500, "ref_allele": 4300, "maps_inverse": 70, "refseq_notation": 4500,
              "lookup_sequence": 70, "realign_anchor": 20, "equivalence_table": 20},
    "thorough": {"haplotype_equal": 12000, "ref_allele": 10000, "maps_inverse": 200,
                 "refseq_notation": 12000, "lookup_sequence": 200, "realign_anchor": 400,
                 "equivalence_table": 400},
}
CASE_TIMEOUT = {"quick": 900, "thorough": 3000}
FLANK = 6


def plan(tier, seed):
    util.import_aldy()
    cases = []
    for g in tables.shipped_gene_names():
        for genome in ("hg19", "hg38"):
            cases.append({"kind": "shipped", "gene": g, "genome": genome,
                          "realign": tier == "thorough" and g in ("cyp2d6", "cyp2a6", "cyp2c19", "ugt1a1", "tpmt")})
    n = 160 if tier == "quick" else 2400
    for k in range(n):
        cases.append({"kind": "gen", "seed": seed, "k": k})
    return cases


def apply_genome(W, ga, P, op):
    """Apply a *loaded* variant (genome position P, genome-strand alleles) to genome window W
    starting at ga.  insX: X between genome bases P and P+1."""
    i = P - ga
    if ">" in op:
        l, r = op.split(">")
        out = list(W)
        for k in range(len(l)):
            if l[k] != ".":
                out[i + k] = r[k]
        return "".join(out)
    if op.startswith("ins"):
        return W[: i + 1] + op[3:] + W[i + 1:]
    body, ins = op[3:], ""
    if "ins" in body:
        body, ins = body.split("ins")
    return W[:i] + ins + W[i + len(body):]


def apply_parsed(W, ga, P, op):
    """Read-parser convention: insertion before P, deletion starting at P."""
    i = P - ga
    if op.startswith("ins"):
        return W[:i] + op[3:] + W[i:]
    return W[:i] + W[i + len(op) - 3:]


def apply_vcf(W, ga, pos1, ref, alt):
    i = pos1 - 1 - ga
    if W[i: i + len(ref)] != ref:
        return None
    return W[:i] + alt + W[i + len(ref):]


def window(model, a, b):
    """Largest gap-free RefSeq window [ra, rb) around [a, b) with FLANK, and its genome interval."""
    L = len(model.seq)
    for k in range(a, b):
        if k not in model.r2c:
            return None
    ra, rb = a, b
    step = model.strand
    while ra > 0 and a - ra < FLANK and (ra - 1) in model.r2c and model.r2c[ra - 1] == model.r2c[ra] - step:
        ra -= 1
    while rb < L and rb - b < FLANK and rb in model.r2c and model.r2c[rb] == model.r2c[rb - 1] + step:
        rb += 1
    for k in range(ra + 1, rb):
        if model.r2c[k] != model.r2c[k - 1] + step:
            return None
    if step > 0:
        ga, gb = model.r2c[ra], model.r2c[rb - 1] + 1
    else:
        ga, gb = model.r2c[rb - 1], model.r2c[ra] + 1
    return ra, rb, ga, gb


def check_gene(res, g, model, desc, truth=None):
    """All per-database and per-variant clauses for one loaded Gene."""
    from aldy.gene import Mutation

    # maps
    res.check("maps_equal_alignment", g.chr_to_ref == model.c2r and g.ref_to_chr == model.r2c,
              "genome/RefSeq maps differ from the alignment string", **desc)
    inv = all(g.ref_to_chr.get(r) == c for c, r in g.chr_to_ref.items()) and \
        all(g.chr_to_ref.get(c) == r for r, c in g.ref_to_chr.items())
    res.check("maps_inverse", inv, "genome/RefSeq position maps are not mutually inverse", **desc)
    # lookup sequence
    bad = []
    s0, e0 = model.start1 - 1, model.end0
    for c in range(s0, e0):
        exp = "N"
        if c in model.c2r:
            b = model.seq[model.c2r[c]]
            exp = b if model.strand > 0 else catalogue.COMP.get(b, b)
        if g[c] != exp:
            bad.append((c, g[c], exp))
            if len(bad) > 3:
                break
    res.check("lookup_sequence", not bad and g[s0 - 1] == "N" and g[e0] == "N",
              "genome-oriented lookup sequence differs from the RefSeq image", mismatches=bad, **desc)
    if not bad and e0 - s0 > 30:
        sl = g[s0 + 3: s0 + 23]
        res.check("lookup_sequence", sl == "".join(g[i] for i in range(s0 + 3, s0 + 23)),
                  "slice lookup differs from per-base lookup", **desc)
        sl = g[s0 - 4: s0 + 5]
        res.check("lookup_sequence", sl == "N" * 4 + "".join(g[i] for i in range(s0, s0 + 5)),
                  "slice lookup across the left end is wrong", got=sl, **desc)
    if truth is not None:
        gs = truth["builds"][g.genome]["genome_seq"]
        badt = [c for c in model.c2r if g[c] != gs[c]][:3]
        res.check("lookup_matches_truth_genome", not badt, "lookup sequence differs from the truth genome",
                  positions=badt, **desc)
    # loaded variants indexed by their written notation
    loaded = {}
    for (P, op), (fn, rs, kpos, opos, oop) in g.mutations.items():
        loaded.setdefault((opos + 1, oop), []).append((P, op, kpos))
    written = set()
    for a in model.alleles.values():
        written |= set(a["variants"])
    for pos, op, *info in model.y["alleles"].get("random", []):
        if isinstance(pos, int):
            written.add((pos, op))
    fps = []
    for (pos1, op) in sorted(written):
        vd = dict(desc, written=f"{pos1}{op}")
        pat, refb = model.ref_allele(pos1, op)
        consistent = pat is None or (len(pat) == len(refb) and all(p in (".", r) for p, r in zip(pat, refb)))
        if not consistent:
            res.count("db_variant_not_matching_refseq")
            continue
        if not model.mappable(pos1, op):
            res.check("unmappable_dropped", (pos1, op) not in loaded,
                      "variant whose key position is not aligned was loaded anyway", **vd)
            res.count("unmapped_variants")
            continue
        ok = (pos1, op) in loaded and len(loaded[pos1, op]) == 1
        res.check("loaded_once", ok, "written variant is not loaded exactly once", loaded=loaded.get((pos1, op)), **vd)
        if not ok:
            continue
        P, lop, kpos = loaded[pos1, op][0]
        vd["loaded"] = f"{P}:{lop}"
        res.check("key_position", kpos == model.key_refpos(pos1, op) and P == model.r2c[kpos],
                  "loaded key position differs from the strand conversion of the written position",
                  got=[kpos, P], expected=[model.key_refpos(pos1, op), model.r2c.get(model.key_refpos(pos1, op))], **vd)
        res.check("refseq_notation", g.get_refseq(Mutation(P, lop)) == f"{pos1}{op}" and
                  g.get_refseq(P, lop) == f"{pos1}{op}",
                  "reported RefSeq notation differs from the written one", got=g.get_refseq(P, lop), **vd)
        # reference allele of the loaded variant against the genome-oriented reference
        if ">" in lop:
            l = lop.split(">")[0]
            okr = all(c == "." or g[P + k] == c for k, c in enumerate(l))
        elif lop.startswith("del"):
            body = lop[3:].split("ins")[0]
            okr = g[P: P + len(body)] == body
        else:
            okr = None
        if okr is not None:
            res.check("ref_allele", okr, "reference allele of the loaded variant does not match the reference",
                      reference=g[P: P + 6], **vd)
        # haplotype equality
        a, b = model.span(pos1, op)
        w = window(model, max(0, a), min(len(model.seq), b))
        if w is None:
            res.count("skipped_window_crosses_gap")
            continue
        ra, rb, ga, gb = w
        W = g[ga:gb]
        if "N" in W:
            res.count("skipped_window_has_N")
            continue
        try:
            hap_g = apply_genome(W, ga, P, lop)
        except IndexError:
            hap_g = None
        if hap_g is not None and model.strand < 0:
            hap_g = catalogue.revcomp(hap_g)
        hap_r = model.apply_refseq(model.seq[ra:rb], pos1, op, offset=ra)
        res.check("haplotype_equal", hap_g == hap_r,
                  "loaded variant applied to the genome differs from the written variant applied to the RefSeq",
                  genome_haplotype=hap_g, refseq_haplotype=hap_r, window=[ra, rb, ga, gb], **vd)
        fps.append(f"{desc.get('gene')}:{g.genome}:{pos1}{op}")
    return fps


class _VariantSpy:
    """Recorder around aldy.indelpost.Variant (looked up at call time by _realign_indels)."""

    def __init__(self):
        import aldy.indelpost as ip

        self.ip = ip
        self.orig = ip.Variant
        self.calls = []
        spy = self

        def make(chrom, pos, ref, alt, reference):
            spy.calls.append((chrom, pos, ref, alt))
            return spy.orig(chrom, pos, ref, alt, reference)

        self.make = make

    def __enter__(self):
        self.ip.Variant = self.make
        return self

    def __exit__(self, *a):
        self.ip.Variant = self.orig


def check_realign(res, g, model, desc, contig_len):
    """Anchors handed to the realigner and the long-read equivalence table."""
    import pysam
    from aldy.profile import Profile
    from aldy.sam import Sample

    scratch = util.scratch_dir()
    bam = os.path.join(scratch, "empty.bam")
    with pysam.AlignmentFile(bam, "wb", header={"HD": {"VN": "1.6", "SO": "coordinate"},
                                                "SQ": [{"SN": g.chr, "LN": contig_len}]}):
        pass
    pysam.index(bam)
    s = Sample.__new__(Sample)
    s.gene = g
    s.profile = Profile("x")
    s._prefix = ""
    s._indel_sites = {(pos, op): [0, 0] for pos, op in g.mutations if op[:3] in ["ins", "del"]}
    s._indel_sites_eqs = {}
    if not s._indel_sites:
        return
    import tempfile

    with _VariantSpy() as spy, pysam.AlignmentFile(bam) as sam, tempfile.TemporaryDirectory() as tmp:
        s._realign_indels(tmp, sam, None, True)
    order = sorted(s._indel_sites, key=lambda x: (x[0], -len(x[1])))
    res.check("realign_anchor", len(spy.calls) == len(order), "not one realignment anchor per catalogued indel",
              anchors=len(spy.calls), indels=len(order), **desc)
    PAD = 40
    for (P, lop), (chrom, pos1, ref, alt) in zip(order, spy.calls):
        ga = max(g._lookup_range[0], P - PAD)
        gb = min(g._lookup_range[1], P + PAD)
        W = g[ga:gb]
        if "N" in W:
            res.count("skipped_window_has_N")
            continue
        want = apply_genome(W, ga, P, lop)
        got = apply_vcf(W, ga, pos1, ref, alt)
        res.check("realign_anchor", got == want and chrom == g.chr,
                  "the indel handed to realignment is not the catalogued indel (different bases or different flanks)",
                  variant=f"{P}:{lop}", anchor=[chrom, pos1, ref, alt], **desc)
        eq = [(k, v) for k, v in s._indel_sites_eqs.items() if v == (P, lop)]
        for (np_, no), _ in eq:
            if not (ga + 2 <= np_ < gb - len(no)):
                continue
            res.check("equivalence_table", apply_parsed(W, ga, np_, no) == want,
                      "long-read equivalence key does not describe the catalogued indel",
                      variant=f"{P}:{lop}", key=[np_, no], **desc)
        if "ins" in lop[3:]:
            continue  # deletion-insertions have no pure insertion/deletion spelling
        res.check("equivalence_table", len(eq) >= 1, "catalogued indel has no entry in the equivalence table",
                  variant=f"{P}:{lop}", **desc)


def check_fast_path_reads(res, g, spec, genome, desc, rng):
    """With the realigner off a read supports a catalogued insertion iff it carries the inserted bases between the
    same two reference bases (or at an equivalent placement): reads with the true insertion must all be credited,
    reads carrying the same bases one base further left (another haplotype, where the placement is unique) not."""
    import tempfile

    import pysam
    from aldy.profile import Profile
    from aldy.sam import Sample

    from ..gen import reads

    T = spec["truth"]["builds"][genome]
    ref = reads.Ref(g, T["genome_seq"])
    probe = Sample.__new__(Sample)
    probe.gene, probe.profile, probe._prefix = g, Profile("x"), ""
    probe._indel_sites = {(p, o): [0, 0] for p, o in g.mutations if o[:3] in ("ins", "del")}
    probe._indel_sites_eqs = {}
    cands = [(p, o) for p, o in g.mutations if o.startswith("ins")]
    if not cands:
        return
    scratch = util.scratch_dir()
    empty = os.path.join(scratch, "fp_empty.bam")
    with pysam.AlignmentFile(empty, "wb", header={"HD": {"VN": "1.6", "SO": "coordinate"},
                                                  "SQ": [{"SN": g.chr, "LN": T["contig_len"]}]}):
        pass
    pysam.index(empty)
    with pysam.AlignmentFile(empty) as sam, tempfile.TemporaryDirectory() as tmp:
        probe._realign_indels(tmp, sam, None, True)
    P, op = rng.choice(sorted(cands))
    keys = [k for k, v in probe._indel_sites_eqs.items() if v == (P, op)]
    unique = len(keys) == 1
    lo, hi = g._lookup_range
    if not (lo + 60 < P < hi - 60) or "N" in g[P - 50: P + 50]:
        return
    for label, after in (("true", P), ("shifted", P - 1)):
        if label == "shifted" and not unique:
            continue
        rds = []
        for k in range(12):
            r = reads.make_read(ref, ({}, [], {after: op[3:]}), P - 45 + k, P + 35 + k, f"{label}{k}")
            if r:
                rds.append(r)
        bam = reads.write_bam(os.path.join(scratch, f"fp_{label}.bam"), g.chr, T["contig_len"], rds)
        smp = Sample(g, Profile("user_provided", cn_solution=["1", "1"], indelpost=False), bam)
        on = smp._indel_sites.get((P, op), [0, 0])[1]
        if label == "true":
            res.check("insertion_consumed_in_place", on == len(rds),
                      "reads carrying a catalogued insertion are not all credited to it (realigner off)",
                      insertion=f"{P}:{op}", reads=len(rds), credited=on, **desc)
        else:
            res.check("insertion_consumed_in_place", on == 0,
                      "reads carrying the inserted bases one base to the left of a uniquely placed catalogued "
                      "insertion are credited to it (realigner off)",
                      insertion=f"{P}:{op}", reads=len(rds), credited=on, **desc)


def run(case):
    util.import_aldy()
    res = Res()
    if case["kind"] == "shipped":
        path = os.path.join(util.REPO, "aldy/resources/genes", case["gene"] + ".yml")
        with open(path) as f:
            text = f.read()
        model = catalogue.YamlModel(text, case["genome"])
        g = tables.gene(case["gene"], case["genome"])
        desc = {"gene": case["gene"], "genome": case["genome"]}
        fps = check_gene(res, g, model, desc)
        if case.get("realign"):
            check_realign(res, g, model, desc, g._lookup_range[1] + 1000)
        if case["gene"] in ("cyp2d6", "tpmt"):
            res.sample = dict(desc, variants=len(fps), strand=model.strand, example=fps[:3])
    else:
        rng = util.rng_for("c08", case["seed"], case["k"])
        spec = dbgen.random_spec(rng, hostile=0.5)
        fps = []
        for genome in ("hg19", "hg38"):
            model = catalogue.YamlModel(dbgen.to_yaml(spec), genome)
            g = dbgen.load(spec, genome)
            desc = {"gene": f"gen{case['seed']}.{case['k']}", "genome": genome,
                    "strand": model.strand, "cigar": spec["yml"]["reference"]["mappings"][genome][4]}
            fps += check_gene(res, g, model, desc, truth=spec["truth"])
            check_realign(res, g, model, desc, spec["truth"]["builds"][genome]["contig_len"])
            check_fast_path_reads(res, g, spec, genome, desc, rng)
        if case["k"] < 2:
            res.sample = dict(desc, variants=len(fps), example=fps[:3])
    res.fp = util.fingerprint([case, len(fps)])
    res.nontrivial = bool(fps)
    res.counters["distinct_variants"] = len(set(fps))
    return res


def summarize(results):
    return {"distinct_mapped_variants": sum(r["counters"].get("distinct_variants", 0) for r in results)}
