"""C05 - the ILP layer returns true optima and exact linearisations.

Monitors: lpmon (online checker of the solve/yield/cut trace of every model built through
aldy.lpinterface.model()), plus offline auditors: the semantic table of generated models
(exhaustive over the primary binaries), proto-level exhaustive enumeration (GLOP for the
continuous part) and independent re-solves (SCIP, HiGHS) of the exported initial and final models.
"""
import os

from .. import lpmon, util
from ..gen import lpgen
from ..util import Res

ID = "C05"
RULE = (
    "kinds: gen = random model of aldy's shape built through lpinterface.model() and enumerated; "
    "prod/abs = exhaustive helper patterns; real = every model aldy builds for a sample or an "
    "evidence table, re-solved by SCIP and HiGHS.  non-trivial = model with >=2 feasible binary "
    "assignments (gen), every helper pattern, every real model with >=1 yield; distinct by model "
    "spec / exported-model fingerprint"
)
ASSUMPTIONS = [
    "OR-Tools ExportModelToProto exports the model CBC solves",
    "SCIP and HiGHS (through OR-Tools) and GLOP are trusted as independent optimisers",
    "feasibility tolerance 1e-5 (aldy's SOLVER_PRECISON), objective comparisons 1e-4, don't-care band 1e-4 at the gap boundary",
]
MIN = {
    "quick": {"first_is_optimum": 300, "yield_feasible": 1000, "complete_superset": 200,
              "prod_exact": 30, "abs_exact": 30, "independent_first": 20},
    "thorough": {"first_is_optimum": 3000, "yield_feasible": 10000, "complete_superset": 2000,
                 "prod_exact": 30, "abs_exact": 30, "independent_first": 100},
}
CASE_TIMEOUT = {"quick": 900, "thorough": 3000}
TOTAL_TIMEOUT = {"quick": 1800, "thorough": 7200}

BATCH = 40


def plan(tier, seed):
    cases = []
    # the long real-sample case first so that it runs in parallel with everything else
    cases.append({"kind": "dump", "file": "INS.dump.tar.gz", "gene": "cyp2d6"})
    ngen = 1600 if tier == "quick" else 40000
    for b in range(ngen // BATCH):
        cases.append({"kind": "gen", "seed": seed, "batch": b, "n": BATCH,
                      "deep": (b % 8 == 0)})
    cases.append({"kind": "prod"})
    cases.append({"kind": "abs", "seed": seed})
    cases.append({"kind": "names"})
    cases.append({"kind": "long_names"})
    cases.append({"kind": "types"})
    # real models
    if tier == "thorough":
        cases.append({"kind": "dump", "file": "HARD.dump.tar.gz", "gene": "cyp2d6"})
    ntab = 24 if tier == "quick" else 300
    for k in range(ntab):
        cases.append({"kind": "table", "seed": seed, "k": k})
    if tier == "thorough":
        cases.append({"kind": "bam", "file": "NA10860.bam", "gene": "cyp2d6"})
        cases.append({"kind": "bam38", "file": "NA10860_hg38.bam", "gene": "cyp2d6"})
    return cases


def _absorb(res, problems):
    for p in problems:
        res.check(p.clause, False, p.what, **p.w)


def _online_counts(res, rec):
    for tr in rec.traces:
        ny = len(tr.yields)
        for c in ("yield_feasible", "yield_objective", "yield_names", "yield_gap", "yield_order",
                  "yield_duplicate"):
            res.seen(c, ny)
        res.seen("abs_helper", sum(y["n_abs"] for y in tr.yields))
        res.seen("prod_helper", sum(y["n_prod"] for y in tr.yields))


def _run_gen(case, res):
    import aldy.lpinterface as lpi

    fps = []
    for k in range(case["n"]):
        rng = util.rng_for("c05", case["seed"], case["batch"], k)
        spec = lpgen.gen_spec(rng)
        lpmon.reset()
        m, b, prods, errs = lpgen.build(spec)
        rec = m._rec
        consume = rng.choice([None, None, None, 1, 2])
        ys = []
        try:
            g = m.solutions(spec["gap"])
            for i, y in enumerate(g):
                ys.append(y)
                if consume is not None and i + 1 >= consume:
                    g.close()
                    break
        except RecursionError:
            res.inconclusive = "enumeration too deep"
            continue
        if len(ys) > 300:
            res.count("long_enumerations")
        tr = rec.traces[0]
        table = lpgen.semantic_table(spec, [m.varName(v) for v in b], [m.varName(v) for v in prods])
        _online_counts(res, rec)
        _absorb(res, rec.problems)
        probs = lpmon.compare_with_table(rec, tr, table)
        res.seen("first_is_optimum")
        if tr.exhausted:
            res.seen("complete_superset", max(1, len(table)))
        else:
            res.count("closed_early")
        for p in probs:
            p.w["spec"] = spec
        _absorb(res, probs)
        if case.get("deep") and k % 4 == 0:
            p2, st = lpmon.audit_independent(rec)
            res.seen("independent_first", st["resolved"])
            res.seen("complete_final_model", st["final_checked"])
            _absorb(res, p2)
            p3, st3 = lpmon.audit_exhaustive(rec, max_bin=11)
            res.seen("proto_enumeration", st3["enumerated"])
            _absorb(res, p3)
        if len(table) >= 2:
            fps.append(util.fingerprint(spec))
        if res.sample is None and len(table) >= 3 and case["batch"] == 0:
            res.sample = {"kind": "gen", "spec": spec, "feasible_assignments": len(table),
                          "yields": [[y[1], list(y[2])] for y in ys][:6]}
    res.count("gen_models", case["n"])
    res.count("gen_models_nontrivial", len(set(fps)))
    return fps


def _run_prod(res):
    import itertools

    import aldy.lpinterface as lpi

    n = 0
    for k in range(1, 5):
        for bits in itertools.product((0, 1), repeat=k):
            for sense in ("min", "max"):
                m = lpi.model("AldyProd", "any")
                fs = [m.addVar(vtype="B", name=f"F{i}") for i in range(k)]
                for f, bval in zip(fs, bits):
                    m.addConstr(f <= bval, name="FIX")
                    m.addConstr(f >= bval, name="FIX")
                r = m.addVar(vtype="B", name="R")
                m.prod(r, fs)
                m.setObjective(1 * r, sense)
                st, obj = m.solve()
                got = m.getValue(r)
                res.check("prod_exact", st == "optimal" and got == bool(all(bits)) and isinstance(got, bool),
                          "product variable is not the AND of its factors in a feasible point",
                          factors=bits, sense=sense, got=repr(got))
                n += 1
    res.count("prod_patterns", n)


def _run_abs(case, res):
    import itertools

    import aldy.lpinterface as lpi

    rng = util.rng_for("c05abs", case["seed"])
    n = 0
    for k in range(1, 5):
        for signs in itertools.product((-1, 0, 1), repeat=k):
            mags = [round(rng.uniform(0.01, 7), 2) for _ in range(k)]
            ws = [rng.choice([1, 1, 2.0, 0.5, 0]) for _ in range(k)]
            m = lpi.model("AldyAbs", "any")
            vs = [m.addVar(lb=-m.INF, ub=m.INF, name=f"E_{i}") for i in range(k)]
            for v, s, mg in zip(vs, signs, mags):
                m.addConstr(v <= s * mg, name="FIX")
                m.addConstr(v >= s * mg, name="FIX")
            coeffs = {m.varName(v): w for v, w in zip(vs, ws)}
            use_coeffs = rng.random() < 0.7
            m.setObjective(m.abssum(vs, coeffs=coeffs if use_coeffs else None))
            st, obj = m.solve()
            exp = sum((w if use_coeffs else 1) * abs(s * mg) for w, s, mg in zip(ws, signs, mags))
            res.check("abs_exact", st == "optimal" and abs(obj - exp) < 1e-6,
                      "abssum optimum differs from the weighted sum of absolute values",
                      signs=signs, mags=mags, weights=ws if use_coeffs else None, got=obj, expected=exp)
            n += 1
    res.count("abs_patterns", n)


def _run_names(res):
    """Colliding names must still identify different variables in the yielded solutions."""
    import aldy.lpinterface as lpi

    # (the uniquifier is not injective - "Q", "Q", "Q_2" gives two variables called Q_2 and OR-Tools
    # then aborts the process; no shipped database produces such names, so this is not driven)
    groups = [["A_1.1", "A_11", "A_1-1"], ["N_5_T>A", "N_5_TA"], ["X#1", "X__1"], ["Q", "Q", "Q"]]
    for g in groups:
        m = lpi.model("AldyNames", "any")
        vs = [m.addVar(vtype="B", name=n) for n in g]
        names = [m.varName(v) for v in vs]
        res.check("names_unique", len(set(names)) == len(names),
                  "escaped variable names collide: two variables are indistinguishable in a solution",
                  given=g, escaped=names)
        # each single-variable solution must be distinguishable
        m.addConstr(m.quicksum(vs) >= 1, name="C")
        m.addConstr(m.quicksum(vs) <= 1, name="C")
        m.setObjective(m.quicksum((i + 1) * v for i, v in enumerate(vs)))
        try:
            ys = [y[2] for y in m.solutions(10.0)]
        except Exception as e:  # pragma: no cover
            ys = repr(e)
        res.check("names_identify", isinstance(ys, list) and len(set(ys)) == len(g),
                  "enumeration over variables with colliding names does not give one solution per variable",
                  given=g, got=repr(ys))


LONG_NAMES_CHILD = r"""
import sys
sys.path.insert(0, %(repo)r)
import aldy.lpinterface as lpi
stem = "K_31319_ins" + "ACGT" * 52   # a variant name longer than the 200 characters names are cut to
names = [stem + "_1_1.001_0", stem + "_1_1.002_0", stem + "_2_2.001_0", stem + "_1_1.001_0"]
m = lpi.model("AldyLong", "any")
vs = [m.addVar(vtype="B", name=n) for n in names]
got = [m.varName(v) for v in vs]
print("DISTINCT", len(set(got)) == len(got))
m.addConstr(m.quicksum(vs) >= 1, name="C")
m.addConstr(m.quicksum(vs) <= 1, name="C")
m.setObjective(m.quicksum((i + 1) * v for i, v in enumerate(vs)))
ys = [(round(y[1], 6), y[2]) for y in m.solutions(10.0)]
print("YIELDS", len(ys), ys[0][0] if ys else None, len({y[1] for y in ys}))
"""


def _run_long_names(res):
    """Names longer than the 200 characters they are cut to (a long insertion in an allele-copy variable) that
    differ only behind that point: the model is legal and must give its optimum, one solution per variable.
    Run in a child process: the solver library aborts the whole process on a duplicate name."""
    import subprocess
    import sys

    p = subprocess.run([sys.executable, "-c", LONG_NAMES_CHILD % {"repo": util.REPO}], capture_output=True,
                       text=True, timeout=300)
    out = p.stdout
    res.check("names_unique", "DISTINCT True" in out,
              "variable names that differ only behind the 200th character come back identical",
              exit_code=p.returncode, output=out[-300:], stderr=p.stderr[-300:])
    res.check("names_identify", p.returncode == 0 and "YIELDS 4 1.0 4" in out,
              "a legal model with long variable names does not give its optimum and one solution per variable "
              "(the process may have been aborted by the solver library)",
              exit_code=p.returncode, output=out[-300:], stderr=p.stderr[-300:])


def _run_types(res):
    """Typed read-back and binary detection: only binaries (and integers bounded [0, 1]) read back as bool and
    are listed in solutions; continuous variables never, whatever their bounds."""
    import aldy.lpinterface as lpi

    for lo, hi, val in ((0, 1, 0.7), (0, 1, 1.0), (0, 1, 0.0), (0, 5, 3.0), (-2, 2, -1.5), (0, 1, 0.5)):
        m = lpi.model("AldyTypes", "any")
        b = m.addVar(vtype="B", name="BIN")
        i5 = m.addVar(vtype="I", lb=0, ub=5, name="INT5")
        c = m.addVar(lb=lo, ub=hi, name="CONT")
        m.addConstr(c <= val, name="FIXC")
        m.addConstr(c >= val, name="FIXC")
        m.addConstr(b >= 1, name="FIXB")
        m.addConstr(i5 >= 3, name="FIXI")
        m.addConstr(i5 <= 3, name="FIXI")
        m.setObjective(1 * b + 1 * i5 + 1 * c)
        m.solve()
        vb, vi, vc = m.getValue(b), m.getValue(i5), m.getValue(c)
        isb = [m.is_binary(b), m.is_binary(i5), m.is_binary(c)]
        ys = list(m.solutions(0))  # (afterwards the model holds the exclusion cut and no values)
        res.check("typed_readback", vb is True and vi == 3 and not isinstance(vi, bool)
                  and not isinstance(vc, bool) and abs(vc - val) < 1e-6,
                  "typed read-back of variable values is wrong", bounds=[lo, hi], value=val,
                  got=[repr(vb), repr(vi), repr(vc)])
        res.check("binary_detection", isb == [True, False, False],
                  "binary detection misclassifies a variable", bounds=[lo, hi], value=val, got=isb)
        res.check("binary_detection", len(ys) == 1 and tuple(ys[0][2]) == ("BIN",),
                  "solutions() lists something other than the active binaries", yielded=[list(y[2]) for y in ys],
                  bounds=[lo, hi], value=val)

    # integers whose bounds are not [0, 1] are not binaries, whatever the sign of a bound: they read back as the
    # integer, are never listed in a solution, and moving them alone never makes a "new" solution
    for ilo, ihi, fix in ((-1, 1, 1), (-1, 1, -1), (-1, 1, 0), (-3, 1, 1), (-3, 1, -2), (0, 2, 1), (-1, 0, -1),
                          (1, 1, 1), (0, 1, 1), (0, 1, 0)):
        m = lpi.model("AldyTypesInt", "any")
        x = m.addVar(vtype="B", name="X")
        y = m.addVar(vtype="B", name="Y")
        z = m.addVar(vtype="I", lb=ilo, ub=ihi, name="Z")
        m.addConstr(x + y >= 1, name="ONE")
        m.addConstr(z >= fix, name="FIXZ")
        m.addConstr(z <= fix, name="FIXZ")
        m.setObjective(1 * x + 1 * y + 0.1 * z)
        m.solve()
        vz, isz = m.getValue(z), m.is_binary(z)
        want_bin = (ilo, ihi) == (0, 1)
        ys = list(m.solutions(0))
        if want_bin:
            okv = vz is (fix > 0)
            want = {("X", "Z"), ("Y", "Z")} if fix else {("X",), ("Y",)}
        else:
            okv = vz == fix and not isinstance(vz, bool)
            want = {("X",), ("Y",)}
        res.check("typed_readback", okv, "typed read-back of an integer variable is wrong",
                  bounds=[ilo, ihi], value=fix, got=repr(vz))
        res.check("binary_detection", isz == want_bin, "binary detection misclassifies an integer variable",
                  bounds=[ilo, ihi], value=fix, got=isz)
        got = [tuple(sorted(t[2])) for t in ys]
        res.check("binary_detection", sorted(got) == sorted(want),
                  "solutions() of a model with an integer variable are not exactly the optimal binary assignments",
                  yielded=[list(g) for g in got], bounds=[ilo, ihi], value=fix)

    # free integer in [-1, 1] with a gap: the exclusion cut must not be satisfiable by moving the integer alone
    m = lpi.model("AldyTypesGap", "any")
    x = m.addVar(vtype="B", name="X")
    y = m.addVar(vtype="B", name="Y")
    z = m.addVar(vtype="I", lb=-1, ub=1, name="Z")
    m.addConstr(x + y >= 1, name="ONE")
    m.setObjective(1 * x + 1 * y - 0.1 * z)
    ys = list(m.solutions(0.2))
    got = [tuple(sorted(t[2])) for t in ys]
    res.check("binary_detection", sorted(got) == [("X",), ("Y",)] and all(abs(t[1] - 0.9) < 1e-6 for t in ys),
              "enumeration with a free integer variable: a binary assignment is repeated or the integer is listed",
              yielded=[[t[1], list(t[2])] for t in ys])


def _audit_all(res, label, max_models=None):
    fps = []
    recs = [r for r in lpmon.RECORDS if r.initial is not None]
    res.count("real_models", len(recs))
    for rec in recs[:max_models]:
        _online_counts(res, rec)
        _absorb(res, rec.problems)
        probs, st = lpmon.audit_independent(rec)
        res.seen("independent_first", st["resolved"])
        res.seen("first_is_optimum", 1 if st["resolved"] else 0)
        res.seen("complete_final_model", st["final_checked"])
        res.count("independent_agreements", st["agree"])
        res.count("independent_skipped", st["skipped"])
        _absorb(res, probs)
        if len(rec.initial.binaries) <= 12:
            p3, st3 = lpmon.audit_exhaustive(rec, max_bin=12)
            res.seen("proto_enumeration", st3["enumerated"])
            if st3["enumerated"]:
                res.seen("complete_superset", st3["assignments"])
            _absorb(res, p3)
        if rec.traces and rec.traces[0].yields:
            fps.append(util.fingerprint([rec.name, len(rec.initial.names), len(rec.initial.cons),
                                         [round(y["obj"], 6) for y in rec.traces[0].yields][:5]]))
        if rec.name_collisions:
            res.count("models_with_name_collisions")
    if res.sample is None and recs:
        r0 = recs[-1]
        res.sample = {"kind": label, "model": r0.name, "variables": len(r0.initial.names),
                      "constraints": len(r0.initial.cons), "solves": r0.solves,
                      "yields": [[y["obj"], len(y["names"])] for t in r0.traces for y in t.yields][:5]}
    return fps


def run(case):
    util.import_aldy()
    lpmon.install()
    res = Res()
    kind = case["kind"]
    if kind == "gen":
        fps = _run_gen(case, res)
        res.fp = util.fingerprint(fps)
        res.nontrivial = bool(fps)
        res.counters["distinct_models"] = len(set(fps))
    elif kind == "prod":
        _run_prod(res)
        res.fp, res.nontrivial = "prod", True
        res.sample = {"kind": "prod", "patterns": "all 0/1 patterns of 1-4 factors, min and max"}
    elif kind == "abs":
        _run_abs(case, res)
        res.fp, res.nontrivial = "abs", True
    elif kind == "long_names":
        _run_long_names(res)
    elif kind == "names":
        _run_names(res)
        res.fp, res.nontrivial = "names", True
    elif kind == "types":
        _run_types(res)
        res.fp, res.nontrivial = "types", True
    elif kind in ("dump", "bam", "bam38"):
        from aldy.genotype import genotype

        lpmon.reset()
        path = os.path.join(util.REPO, "aldy/tests/resources", case["file"])
        kw = dict(gap=0, max_minor_solutions=3, minor_phase_vars=10)
        try:
            genotype(case["gene"], path, "illumina", None,
                     genome="hg38" if kind == "bam38" else None, **kw)
        except Exception as e:
            res.inconclusive = f"!genotype failed: {e!r}"
        fps = _audit_all(res, kind)
        res.fp = util.fingerprint([case["file"], fps])
        res.nontrivial = bool(fps)
    elif kind == "table":
        from . import _tables

        lpmon.reset()
        desc = _tables.run_random_stage_calls(case["seed"], case["k"])
        fps = _audit_all(res, "table")
        res.fp = util.fingerprint([desc, fps])
        res.nontrivial = bool(fps)
        res.count("table_stage_calls", desc.get("calls", 0))
    return res


def summarize(results):
    d = sum(r["counters"].get("distinct_models", 0) for r in results)
    return {"gen_models_distinct_nontrivial": d}
