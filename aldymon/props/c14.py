"""C14 - genotyping is deterministic, isolated and leaves the database untouched.

History monitor: sequences of operations (single-gene runs, multi-gene runs with and without a failing
gene, stage calls, accessors, writers, query printing) are executed against simulated samples; an
offline checker compares the result signatures of equal operations wherever they occur and deep
snapshots of the gene database / evidence before and after every operation.  Fresh processes with
different hash seeds replay one run; the minor stage is called with every subset / order of the
candidate list.
"""
import collections
import io
import itertools
import json
import os
import subprocess
import sys

from .. import util
from ..gen import reads, tables
from ..ref import snapshot
from ..util import Res
from . import _sim

ID = "C14"
RULE = (
    "history cases: 2-6 operations drawn from {genotype A, genotype B, multi-gene run (A,B / B,A / with a "
    "failing gene C), accessor sweep, writers, query printing} over two generated databases on different "
    "contigs in one BAM; api cases: random sequences of stage calls / accessors / writers on one loaded "
    "Gene + Sample with snapshots after every call; hashseed cases: one run replayed in fresh processes "
    "with PYTHONHASHSEED 0-7; minor-isolation cases: all subsets and orders of a candidate list with "
    "different structures; non-trivial = history with >= 3 operations or >= 2 candidates; distinct by "
    "the case description"
)
ASSUMPTIONS = [
    "result signature = structures, major and minor solutions with all three score levels and the output text",
    "scores are compared exactly inside one process and at 1e-9 between processes",
]
MIN = {
    "quick": {"same_operation_same_result": 60, "multi_gene_equals_single": 20, "failing_gene_isolated": 8,
              "database_untouched": 150, "evidence_untouched": 80, "hash_seed_independent": 10,
              "minor_candidate_isolated": 20, "minor_repeat_same": 30, "parameters_take_effect_on_used_evidence": 6},
    "thorough": {"same_operation_same_result": 800, "multi_gene_equals_single": 250, "failing_gene_isolated": 100,
                 "database_untouched": 1800, "evidence_untouched": 800, "hash_seed_independent": 40,
                 "minor_candidate_isolated": 300, "minor_repeat_same": 60,
                 "parameters_take_effect_on_used_evidence": 60},
}
CASE_TIMEOUT = {"quick": 900, "thorough": 3000}
TOTAL_TIMEOUT = {"quick": 1800, "thorough": 7200}


def plan(tier, seed):
    cases = []
    for k in range(28 if tier == "quick" else 350):
        cases.append({"kind": "history", "seed": seed, "k": k})
    for k in range(32 if tier == "quick" else 400):
        cases.append({"kind": "api", "seed": seed, "k": k})
    for k in range(2 if tier == "quick" else 8):
        cases.append({"kind": "hashseed", "seed": seed, "k": k})
    for k in range(4 if tier == "quick" else 60):
        cases.append({"kind": "history_shipped", "seed": seed, "k": k})
    for k in range(8 if tier == "quick" else 120):
        cases.append({"kind": "simple_multi", "seed": seed, "k": k})
    for k in range(20 if tier == "quick" else 250):
        cases.append({"kind": "minor_isolation", "seed": seed, "k": k})
    for k in range(12 if tier == "quick" else 150):
        cases.append({"kind": "param_change", "seed": seed, "k": k})
    return cases


def solution_signature(sols):
    out = []
    for s in sols:
        out.append({
            "structure": sorted(s.major_solution.cn_solution.solution.items()),
            "structure_score": repr(s.major_solution.cn_solution.score),
            "major": sorted((a.major, n) for a, n in s.major_solution.solution.items()),
            "major_added": sorted(map(str, s.major_solution.added)),
            "major_score": repr(s.major_solution.score),
            "minor": [(a.major, a.minor, sorted(map(str, a.added)), sorted(map(str, a.missing))) for a in s.solution],
            "score": repr(s.score),
            "diplotype": s.get_major_diplotype(),
        })
    return out


# ------------------------------------------------------------------------------------- two databases, one BAM


class Pair:
    """Two generated databases on different contigs and BAM files that hold both loci."""

    def __init__(self, rng):
        for _ in range(40):
            genome = rng.choice(["hg19", "hg38"])
            a = _sim.gen_db(rng.randrange(30), genome, want_cn=True)
            b = _sim.gen_db(rng.randrange(30), genome, want_cn=True)
            c = _sim.gen_db(rng.randrange(30), genome, want_cn=True)
            if len({a.chrom, b.chrom, c.chrom}) == 3:
                break
        else:
            raise RuntimeError("no three databases on different contigs")
        self.a, self.b, self.c, self.genome = a, b, c, genome
        self.contigs = [(a.chrom, a.contig_len), (b.chrom, b.contig_len), (c.chrom, c.contig_len)]

    def bam(self, fname, copies_a, copies_b, rl, depth, rng, reference=False):
        rds = []
        for tid, (db, copies) in enumerate(((self.a, copies_a), (self.b, copies_b))):
            haps = reads.haplotypes_for(db.gene, copies)
            rr = reads.simulate(db.gene, haps, rl=rl, depth=depth, ref=db.ref,
                                neutral=self.a.neutral if tid == 0 else None, rng=rng,
                                name_prefix=f"t{tid}r")
            for r in rr:
                r["tid"] = tid
            rds += rr
        path = os.path.join(util.scratch_dir(), fname)
        import pysam

        reads.write_bam(path, self.contigs[0][0], self.contigs[0][1], rds, extra_contigs=self.contigs[1:])
        return path

    def cn_region(self):
        return self.a.cn_region()


def _genotype(paths, bam, refbam, cn_region, genome, out=None, **params):
    from aldy.genotype import genotype

    return genotype(",".join(paths), bam, refbam, out, cn_region=cn_region, genome=genome, **params)


def _history_case(res, case):
    from aldy.common import AldyException

    rng = util.rng_for("c14h", case["seed"], case["k"])
    pr = Pair(rng)
    rl, depth = 100, 20
    ca = _sim.random_genotype(pr.a, rng)
    cb = _sim.random_genotype(pr.b, rng)
    ra, rb = pr.a.reference_copy(), pr.b.reference_copy()
    refbam = pr.bam("h_ref.bam", [ra, ra], [rb, rb], rl, depth, rng)
    bam = pr.bam("h_s.bam", ca, cb, rl, depth, rng)
    params = {}
    if rng.random() < 0.4:
        params["gap"] = rng.choice([0.1, 0.1, 0.3])
    if rng.random() < 0.4:
        params["max_minor_solutions"] = rng.choice([2, 3])
    if rng.random() < 0.3:
        params["phase"] = False
    ops = [rng.choice(["GA", "GB", "MAB", "MBA", "MABC", "MCAB", "ACC", "Q", "W", "GA", "MAB"])
           for _ in range(rng.randint(2, 6))]
    if "GA" not in ops and "MAB" not in ops:
        ops.append("GA")
    desc = {"dbs": [pr.a.label, pr.b.label, pr.c.label], "genome": pr.genome, "ops": ops, "params": params,
            "planted_a": [list(c[:2]) for c in ca], "planted_b": [list(c[:2]) for c in cb]}
    sigs = collections.defaultdict(list)  # gene path -> [(op index, op, signature, output text)]
    last = {}
    for oi, op in enumerate(ops):
        if op in ("GA", "GB", "MAB", "MBA", "MABC", "MCAB"):
            paths = {"GA": [pr.a.path], "GB": [pr.b.path], "MAB": [pr.a.path, pr.b.path],
                     "MBA": [pr.b.path, pr.a.path], "MABC": [pr.a.path, pr.b.path, pr.c.path],
                     "MCAB": [pr.c.path, pr.a.path, pr.b.path]}[op]
            outp = os.path.join(util.scratch_dir(), f"h_{oi}.aldy")
            try:
                with util.time_limit(40):
                    with open(outp, "w") as f:
                        out = _genotype(paths, bam, refbam, pr.cn_region(), pr.genome, f, **params)
            except util.Slow:
                res.count("skipped_slow")
                return None
            except AldyException as e:
                out = {"__error__": str(e)}
            text = open(outp).read()
            for p in paths:
                if p == pr.c.path:
                    res.check("failing_gene_isolated", p not in out,
                              "a gene without reads produced a result in a multi-gene run", **desc)
                    continue
                if p in out:
                    blocks = text  # the whole file; per-gene comparison below uses the solutions
                    sigs[p].append((oi, op, solution_signature(out[p])))
                    last[p] = out[p]
                else:
                    sigs[p].append((oi, op, {"error": out.get("__error__", "missing")}))
        elif op == "ACC" and last:
            for p, sols in last.items():
                g = sols[0].major_solution.cn_solution.gene if sols else None
                if g is None:
                    continue
                before = snapshot.gene_snapshot(g)
                accessor_sweep(g, sols)
                after = snapshot.gene_snapshot(g)
                res.check("database_untouched", before == after,
                          "accessors modified the gene database", mech=_mutation_mech(before, after),
                          diff=snapshot.diff(before, after), **desc)
        elif op == "Q":
            from aldy.gene import Gene
            from aldy.query import query

            g = Gene(pr.a.path, genome=pr.genome)
            before = snapshot.gene_snapshot(g)
            query(g, "")
            query(g, next(iter(g.alleles)))
            after = snapshot.gene_snapshot(g)
            res.check("database_untouched", before == after, "query printing modified the gene database",
                      diff=snapshot.diff(before, after), **desc)
        elif op == "W" and last:
            from aldy.diplotype import write_decomposition, write_vcf

            for p, sols in last.items():
                if not sols:
                    continue
                g = sols[0].major_solution.cn_solution.gene
                before = snapshot.gene_snapshot(g)
                cov = tables.make_coverage(g, {})
                buf = io.StringIO()
                for i, s in enumerate(sols):
                    write_decomposition("s", g, cov, i, s, buf)
                write_vcf("s", g, cov, sols, buf)
                after = snapshot.gene_snapshot(g)
                res.check("database_untouched", before == after, "output writers modified the gene database",
                          diff=snapshot.diff(before, after), **desc)
    # offline: equal inputs -> equal signatures, wherever they occur
    for p, lst in sigs.items():
        single = [s for oi, op, s in lst if op in ("GA", "GB")]
        multi = [s for oi, op, s in lst if op.startswith("M")]
        allv = [s for _, _, s in lst]
        for s in allv[1:]:
            res.check("same_operation_same_result", s == allv[0],
                      "the same gene and sample gave different results at different points of a history",
                      first=allv[0][:1] if isinstance(allv[0], list) else allv[0],
                      other=s[:1] if isinstance(s, list) else s, occurrences=[o for _, o, _ in lst], **desc)
        if single and multi:
            res.check("multi_gene_equals_single", all(m == single[0] for m in multi),
                      "a gene processed in a multi-gene run differs from the same gene processed alone", **desc)
        with_c = [s for oi, op, s in lst if op in ("MABC", "MCAB")]
        without_c = [s for oi, op, s in lst if op not in ("MABC", "MCAB")]
        if with_c and without_c:
            res.check("failing_gene_isolated", all(w == without_c[0] for w in with_c),
                      "a failing gene in a multi-gene run changed the results of another gene", **desc)
    # the gene objects the runs used equal a fresh load
    from aldy.gene import Gene

    for p, sols in last.items():
        if sols:
            g = sols[0].major_solution.cn_solution.gene
            fresh = Gene(p, genome=pr.genome)
            a_, b_ = snapshot.gene_snapshot(g), snapshot.gene_snapshot(fresh)
            res.check("database_untouched", a_ == b_,
                      "the gene database a run used differs from a fresh load afterwards",
                      mech=_mutation_mech(b_, a_), diff=snapshot.diff(b_, a_), **desc)
    return desc if len(ops) >= 3 else None


def _history_shipped_case(res, case):
    """The same shipped gene through different profiles (whole-genome / exome family) and samples in one process."""
    from aldy.common import AldyException
    from aldy.genotype import genotype

    rng = util.rng_for("c14hs", case["seed"], case["k"])
    genome = rng.choice(["hg19", "hg38"])
    db = _sim.shipped_db(rng.choice(["cyp2a6", "cyp2a6", "gstm1"]), genome)
    g = db.gene
    s1 = _sim.random_genotype(db, rng, n=rng.choice([1, 3, 3]))
    s2 = _sim.random_genotype(db, rng, n=2)
    bam1, _ = db.sim(s1, "hs1.bam", 100, 20)
    bam2, _ = db.sim(s2, "hs2.bam", 100, 20)
    ops = [rng.choice([("illumina", 1), ("exome", 1), ("wes", 1), ("illumina", 2), ("wgs", 1), ("exome", 2)])
           for _ in range(rng.randint(3, 6))]
    # the reference run comes first, an exome-family run somewhere in between, the same run again last
    ops = [("illumina", 1)] + ops + [(rng.choice(["exome", "wes", "wxs"]), rng.choice([1, 2])), ("illumina", 1)]
    desc = {"db": db.label, "samples": [[list(c[:2]) for c in s1], [list(c[:2]) for c in s2]],
            "ops": [list(o) for o in ops]}
    seen = collections.defaultdict(list)
    for prof, which in ops:
        try:
            with util.time_limit(120):
                out = genotype(db.path, bam1 if which == 1 else bam2, prof, None, cn_region=db.cn_region(),
                               genome=genome)
            sig = solution_signature(list(out.values())[0])
        except util.Slow:
            res.count("skipped_slow")
            return None
        except AldyException as e:
            sig = {"error": str(e)[:100]}
        key = ("wgs" if prof in ("illumina", "wgs") else "exome", which)
        seen[key].append(sig)
    for key, lst in seen.items():
        for x in lst[1:]:
            res.check("same_operation_same_result", x == lst[0],
                      "the same gene, sample and profile gave different results after other runs in the same process",
                      profile_sample=list(key), first=str(lst[0])[:300], other=str(x)[:300], **desc)
    return desc


def _simple_multi_case(res, case):
    """One-line-per-gene output of a multi-gene run vs the same genes run alone, with a gene that fails at
    different stages (no reads / no candidate allele for a user-supplied structure / unknown configuration)."""
    from aldy.common import AldyException

    rng = util.rng_for("c14sm", case["seed"], case["k"])
    pr = Pair(rng)
    rl, depth = 100, 20
    ca = _sim.random_genotype(pr.a, rng, n=2, allow_structural=False)
    cb = _sim.random_genotype(pr.b, rng, n=2, allow_structural=False)
    ra, rb = pr.a.reference_copy(), pr.b.reference_copy()
    refbam = pr.bam("sm_ref.bam", [ra, ra], [rb, rb], rl, depth, rng)
    bam = pr.bam("sm_s.bam", ca, cb, rl, depth, rng)
    params = {}
    gb = pr.b.gene
    cfgs = [c for c, v in gb.cn_configs.items() if c != "1" and c != gb.deletion_allele()
            and all(gb.alleles[a].func_muts for a in v.alleles)]
    mode = rng.choice(["no_candidate", "no_candidate", "unknown_config", "none"])
    if mode == "no_candidate" and cfgs:
        params["cn_solution"] = [rng.choice(cfgs), "1"]
    elif mode == "unknown_config":
        only_b = [c for c in gb.cn_configs if c not in pr.a.gene.cn_configs]
        if only_b:
            params["cn_solution"] = [only_b[0], "1"]
    order = rng.choice([[pr.a.path, pr.b.path, pr.c.path], [pr.b.path, pr.a.path], [pr.c.path, pr.b.path, pr.a.path]])
    desc = {"dbs": [pr.a.label, pr.b.label, pr.c.label], "mode": mode, "params": {k: v for k, v in params.items()},
            "order": [os.path.basename(p) for p in order]}

    def run(paths, tag):
        outp = os.path.join(util.scratch_dir(), f"sm_{tag}.simple")
        with open(outp, "w") as f:
            try:
                with util.time_limit(120):
                    if "cn_solution" in params:
                        from aldy.genotype import genotype

                        genotype(",".join(paths), bam, None, f, genome=pr.genome, **params)
                    else:
                        _genotype(paths, bam, refbam, pr.cn_region(), pr.genome, f, **params)
            except AldyException:
                pass
        return open(outp).read()

    try:
        multi = run(order, "multi")
        singles = {p: run([p], f"single{i}") for i, p in enumerate(order)}
    except util.Slow:
        res.count("skipped_slow")
        return None
    # every line of the multi-gene file is one record
    for ln in multi.split("\n"):
        if not ln:
            continue
        f = ln.split("\t")
        res.check("simple_one_record_per_line", f.count("GENX") <= 1 and f[0] == "sm_s",
                  "a line of the multi-gene simple output holds more than one gene record", line=ln[:200], **desc)
    res.check("simple_one_record_per_line", multi == "" or multi.endswith("\n"),
              "multi-gene simple output ends with an unterminated line", tail=multi[-120:], **desc)
    # the multi-gene file is the concatenation of the single-gene files, in order
    expected = "".join(singles[p] for p in order)
    res.check("multi_gene_equals_single", multi == expected,
              "multi-gene simple output differs from the single-gene outputs put together",
              multi=multi[:400], singles=expected[:400], **desc)
    return desc


def _mutation_mech(before, after):
    """The listed defect: SolvedAllele.mutations() merges minor / added variants into the catalogue's
    core set in place.  Exact signature: only 'func' sets of major alleles grew."""
    if before == after:
        return None
    b2 = json.loads(json.dumps(before))
    a2 = json.loads(json.dumps(after))
    grew = True
    for an in set(b2["alleles"]) | set(a2["alleles"]):
        if an not in b2["alleles"] or an not in a2["alleles"]:
            return None
        fb = {tuple(x) for x in b2["alleles"][an]["func"]}
        fa = {tuple(x) for x in a2["alleles"][an]["func"]}
        if not fb <= fa and not fa <= fb:
            grew = False
        b2["alleles"][an]["func"] = a2["alleles"][an]["func"] = []
    return "allele-accessor-mutates-catalogue" if grew and b2 == a2 else None


def accessor_sweep(g, sols, coverage=None):
    """Every public accessor of gene / solution objects."""
    from aldy.gene import Mutation

    for s in sols:
        str(s), hash(s.major_solution), s._solution_nice(), s.get_major_diplotype(), s.get_minor_diplotype(),
        s.get_minor_diplotype(legacy=True), s.get_diplotype()
        for i, a in enumerate(s.solution):
            s.get_major_name(i), s.get_minor_name(i), s.get_minor_name(i, legacy=True)
            a.mutations(), a.major_repr(), str(a), hash(a)
        ms = s.major_solution
        str(ms), ms._solution_nice()
        for a in ms.solution:
            a.mutations(), a.major_repr(), str(a)
        cn = ms.cn_solution
        str(cn), hash(cn), cn._solution_nice(), cn.max_cn()
        for p in list(g.chr_to_ref)[:3]:
            cn.position_cn(p)
        if coverage is not None:
            s.get_mutation_coverages(coverage)
    for (p, o) in list(g.mutations)[:30]:
        m = Mutation(p, o)
        g.get_functional(m), g.is_functional(m), g.get_rsid(m), g.get_rsid(p, o, default=False)
        g.get_refseq(m), g.get_refseq(m, from_atg=True), g.region_at(p), (p in g), g[p], g[p - 2: p + 3]
        for an in list(g.alleles)[:5]:
            g.has_coverage(an, p)
    g.get_functional((min(g.chr_to_ref) + 7, "A>C")), g.deletion_allele(), g.get_wide_region(), str(g), repr(g)
    for an, a in list(g.alleles.items())[:10]:
        for mn in list(a.minors)[:3]:
            g.get_allele(mn), list(a.get_minor_mutations(mn))
    for c in g.cn_configs.values():
        str(c), c.vector


# ------------------------------------------------------------------------------------- direct API sequences


def _api_case(res, case):
    from aldy.cn import estimate_cn
    from aldy.common import AldyException
    from aldy.coverage import Coverage
    from aldy.diplotype import write_decomposition, write_vcf
    from aldy.gene import Gene, Mutation
    from aldy.major import estimate_major
    from aldy.minor import estimate_minor
    from aldy.profile import Profile
    from aldy.query import query
    from aldy.sam import Sample

    rng = util.rng_for("c14a", case["seed"], case["k"])
    genome = rng.choice(["hg19", "hg38"])
    db = _sim.gen_db(rng.randrange(30), genome, want_cn=True)
    copies = _sim.random_genotype(db, rng)
    bam, rds = db.sim(copies, "a_s.bam", 100, 20)
    g = Gene(db.path, genome=genome)
    prof = Profile.load(g, db.ref_bam(100, 20), db.cn_region(), gap=rng.choice([0, 0.1]),
                        max_minor_solutions=rng.choice([1, 2]))
    s = Sample(g, prof, bam)
    g0, c0 = snapshot.gene_snapshot(g), snapshot.coverage_snapshot(s.coverage)
    fresh = snapshot.gene_snapshot(Gene(db.path, genome=genome))
    res.check("database_untouched", g0 == fresh, "loading a sample changed the gene database",
              diff=snapshot.diff(fresh, g0))
    state = {"cn": None, "major": None, "minor": None}
    ops = [rng.choice(["cn", "major", "minor", "filtered", "dump", "acc", "writers", "query", "cn", "major", "minor"])
           for _ in range(rng.randint(2, 6))]
    desc = {"db": db.label, "planted": [list(c[:2]) for c in copies], "ops": ops}
    results = collections.defaultdict(list)
    for op in ops:
        try:
            with util.time_limit(90):
                if op == "cn":
                    state["cn"] = estimate_cn(g, prof, s.coverage, "any")
                    results["cn"].append(sorted((tuple(sorted(c.solution.items())), repr(c.score)) for c in state["cn"]))
                elif op == "major":
                    if not state["cn"]:
                        state["cn"] = estimate_cn(g, prof, s.coverage, "any")
                    state["major"] = [m for c in state["cn"][:2] for m in estimate_major(g, s.coverage, c, "any")]
                    results["major"].append(sorted(
                        (tuple(sorted((a.major, n) for a, n in m.solution.items())), tuple(map(str, m.added)),
                         repr(m.score)) for m in state["major"]))
                elif op == "minor":
                    if not state["major"]:
                        continue
                    state["minor"] = estimate_minor(g, s.coverage, state["major"][:3], "any",
                                                    max_solutions=prof.max_minor_solutions)
                    results["minor"].append(sorted(
                        (tuple(sorted((a.major, a.minor, tuple(map(str, a.added)), tuple(map(str, a.missing)))
                                      for a in m.solution)), repr(m.score)) for m in state["minor"]))
                elif op == "filtered":
                    f = s.coverage.filtered(Coverage.quality_filter)
                    f2 = f.filtered(lambda cov, mut: cov.basic_filter(mut, cn=2))
                    res.check("filtered_is_new_object", f is not s.coverage and f2 is not f,
                              "filtered() did not return a new object", **desc)
                    for (p, o) in list(g.mutations)[:20]:
                        m = Mutation(p, o)
                        s.coverage.coverage(m), s.coverage.total(m), s.coverage.percentage(m), s.coverage[m]
                        if state["cn"]:
                            s.coverage.single_copy(m, state["cn"][0])
                    s.coverage.average_coverage(), s.coverage.diploid_avg_coverage()
                elif op == "dump":
                    s.coverage.dump(lambda *a: None)
                elif op == "acc":
                    accessor_sweep(g, state["minor"] or [], s.coverage)
                    for m in state["major"] or []:
                        for a in m.solution:
                            a.mutations()
                elif op == "writers" and state["minor"]:
                    buf = io.StringIO()
                    for i, m in enumerate(state["minor"]):
                        write_decomposition(s.name, g, s.coverage, i, m, buf)
                    write_vcf(s.name, g, s.coverage, state["minor"], buf)
                    results["writers"].append(buf.getvalue())
                elif op == "query":
                    query(g, "")
                    query(g, rng.choice(list(g.alleles)))
        except util.Slow:
            res.count("skipped_slow")
            return None
        except AldyException:
            pass
        except RecursionError:
            res.count("skipped_recursion")
            return None
        g1, c1 = snapshot.gene_snapshot(g), snapshot.coverage_snapshot(s.coverage)
        res.check("database_untouched", g1 == g0, f"operation '{op}' modified the loaded gene database",
                  mech=_mutation_mech(g0, g1), diff=snapshot.diff(g0, g1), op=op, **desc)
        res.check("evidence_untouched", c1 == c0, f"operation '{op}' modified the sample evidence",
                  diff=snapshot.diff(c0, c1), op=op, **desc)
        if g1 != g0:
            g0 = g1  # report each modification once
    for k, lst in results.items():
        if k == "major" and len(lst) > 1:
            pass
        for x in lst[1:]:
            res.check("same_operation_same_result", x == lst[0] or k in ("major", "minor", "writers") and state_changed(k, lst),
                      f"repeating stage '{k}' on the same objects gave a different result",
                      first=str(lst[0])[:300], other=str(x)[:300], **desc)
    return desc if len(ops) >= 3 else None


def state_changed(k, lst):
    # major / minor / writers results legitimately depend on the (possibly re-computed, equal) inputs; equal
    # inputs give equal outputs, which is what is compared above - no exemption
    return False


# ------------------------------------------------------------------------------------- hash seeds


CHILD = r"""
import json, sys, hashlib
sys.path.insert(0, %(verif)r)
from aldymon import util
util.import_aldy()
from aldy.genotype import genotype
from aldy.common import GRange
spec = json.load(open(%(spec)r))
out_path = spec["out"]
with open(out_path, "w") as f:
    res = genotype(spec["db"], spec["bam"], spec["ref"], f, cn_region=GRange(*spec["cn_region"]),
                   genome=spec["genome"], **spec["params"])
from aldymon.props.c14 import solution_signature
sig = {k: solution_signature(v) for k, v in res.items()}
print("SIG " + json.dumps({"sig": sig, "out": hashlib.sha1(open(out_path, "rb").read()).hexdigest()}))
"""


def _hashseed_case(res, case):
    rng = util.rng_for("c14s", case["seed"], case["k"])
    genome = rng.choice(["hg19", "hg38"])
    db = _sim.gen_db(rng.randrange(30), genome, want_cn=True)
    copies = _sim.random_genotype(db, rng, n=rng.choice([2, 3]))
    # a silent variant of another called allele's family planted on the first copy, so that the minor stage
    # has to *add* a variant (the tie-breaker only shows in the cost of additions)
    g_ = db.gene
    for _ in range(30):
        copies = _sim.random_genotype(db, rng, n=2, allow_structural=False)
        own0 = tables.allele_variants(g_, *copies[0][:2])
        pool = set()
        for mi in g_.alleles[copies[1][0]].minors.values():
            pool |= set(mi.neutral_muts)
        pool = sorted(m for m in pool if m not in own0 and m not in tables.allele_variants(g_, *copies[1][:2])
                      and ">" in m.op and len(m.op) == 3 and not any(o.pos == m.pos for o in own0))
        if pool and copies[0][0] != copies[1][0]:
            copies[0] = (copies[0][0], copies[0][1], {rng.choice(pool)}, set())
            break
    haps = reads.haplotypes_for(db.gene, copies)
    rds = reads.simulate(db.gene, haps, rl=100, depth=20, ref=db.ref, neutral=db.neutral, rng=rng, error_rate=0.004)
    scratch = util.scratch_dir()
    bam = reads.write_bam(os.path.join(scratch, "hs.bam"), db.chrom, db.contig_len, rds)
    spec = {"db": db.path, "bam": bam, "ref": db.ref_bam(100, 20), "cn_region": list(db.cn_region()),
            "genome": genome, "params": {"max_minor_solutions": 3, "gap": rng.choice([0, 0.1])}}
    desc = {"db": db.label, "planted": [[c[0], c[1]] + ([sorted(map(str, c[2]))] if len(c) > 2 else []) for c in copies],
            "params": spec["params"]}
    outs = []
    for hs in range(8):
        spec["out"] = os.path.join(scratch, f"hs_{hs}.aldy")
        sp = os.path.join(scratch, f"hs_spec_{hs}.json")
        with open(sp, "w") as f:
            json.dump(spec, f)
        env = dict(os.environ, PYTHONHASHSEED=str(hs), PYTHONPATH=util.VERIF, ALDY_REPO=util.REPO)
        try:
            p = subprocess.run([sys.executable, "-c", CHILD % {"verif": util.VERIF, "spec": sp}], env=env,
                               capture_output=True, text=True, timeout=300)
        except subprocess.TimeoutExpired:
            res.count("skipped_slow")
            return None
        line = [ln for ln in p.stdout.split("\n") if ln.startswith("SIG ")]
        if not line:
            outs.append({"error": (p.stderr or "")[-300:]})
        else:
            outs.append(json.loads(line[0][4:]))
    base = outs[0]
    for hs, o in enumerate(outs[1:], 1):
        same = o == base
        mech = None
        if not same and "sig" in o and "sig" in base:
            # identical solutions and output bytes, scores differing only in the tie-breaker digits
            def strip(sig):
                return json.loads(json.dumps(sig), parse_float=None)

            def noscore(sig):
                s2 = json.loads(json.dumps(sig))
                sc = []
                for v in s2.values():
                    for d in v:
                        sc.append(float(d.pop("score")))
                return s2, sc

            a, sa = noscore(base["sig"])
            b, sb = noscore(o["sig"])
            if a == b and base["out"] == o["out"] and len(sa) == len(sb) and \
                    all(abs(x - y) < 1e-3 for x, y in zip(sa, sb)):
                mech = "tiebreak-order-follows-hash-seed"
            else:
                # the tie-breaker digits also decide which of several assignments that tie without them are
                # within solver precision of the optimum: same structure and major solution everywhere, every
                # reported refinement of either process at the same score up to the tie-breaker
                def upper(sig):
                    s2 = json.loads(json.dumps(sig))
                    for v in s2.values():
                        for d in v:
                            d.pop("score"), d.pop("minor"), d.pop("diplotype", None)
                    return {k: sorted(map(json.dumps, v)) for k, v in s2.items()}

                ua, ub = upper(base["sig"]), upper(o["sig"])
                if {k: set(v) for k, v in ua.items()} == {k: set(v) for k, v in ub.items()} and \
                        all(len(set(v)) == 1 for v in ua.values()) and sa and sb and \
                        max(sa + sb) - min(sa + sb) < 1e-3:
                    mech = "tiebreak-order-follows-hash-seed"
        res.check("hash_seed_independent", same,
                  "a fresh process with a different hash seed gave a different result",
                  mech=mech, hash_seed=hs, base=str(base)[:300], other=str(o)[:300], **desc)
    return desc


# ------------------------------------------------------------------------------------- minor-stage isolation


def _minor_isolation_case(res, case):
    import aldy.minor
    from aldy.cn import estimate_cn
    from aldy.gene import Gene
    from aldy.major import estimate_major
    from aldy.minor import estimate_minor
    from aldy.profile import Profile
    from aldy.sam import Sample

    rng = util.rng_for("c14m", case["seed"], case["k"])
    genome = rng.choice(["hg19", "hg38"])
    db = _sim.gen_db(rng.randrange(30), genome, want_cn=True, pseudogene=True)
    g = Gene(db.path, genome=genome)
    copies = _sim.random_genotype(db, rng, n=rng.choice([2, 3]))
    haps = reads.haplotypes_for(g, copies)
    if len(haps) >= 3:
        haps[-1]["depth"] = rng.choice([8, 10, 12])
    else:
        extra = reads.haplotypes_for(g, [copies[0], copies[-1], db.reference_copy()])[-1]
        extra["depth"] = rng.choice([8, 10, 12])
        haps.append(extra)
    rds = reads.simulate(g, haps, rl=100, depth=20, ref=db.ref, neutral=db.neutral, rng=rng,
                         error_rate=rng.choice([0, 0.003]))
    bam = reads.write_bam(os.path.join(util.scratch_dir(), "mi.bam"), db.chrom, db.contig_len, rds)
    prof = Profile.load(g, db.ref_bam(100, 20), db.cn_region(), gap=0.3)
    s = Sample(g, prof, bam)
    try:
        with util.time_limit(60):
            cns = estimate_cn(g, prof, s.coverage, "any")
            cns = sorted(cns, key=lambda c: c.score)[:3]
            if len(cns) == 1:
                # a competing structure with one more gene copy, so that the candidate list always mixes structures
                from aldy.solutions import CNSolution

                cns.append(CNSolution(g, cns[0].score + 0.2, list(cns[0].solution.elements()) + ["1"]))
            majors = []
            for c in cns:
                majors += estimate_major(g, s.coverage, c, "any")[:2]
    except (util.Slow, RecursionError):
        res.count("skipped_slow")
        return None
    except Exception:
        return None
    majors = majors[:4]
    structures = {tuple(sorted(m.cn_solution.solution.items())) for m in majors}
    if len(majors) < 2:
        res.count("single_candidate")
        return None
    desc = {"db": db.label, "planted": [list(c[:2]) for c in copies], "candidates": len(majors),
            "structures": len(structures)}
    orig = aldy.minor.solve_minor_model
    seen = collections.defaultdict(dict)  # candidate key -> {arrangement: result}

    def key(m):
        return (tuple(sorted(m.cn_solution.solution.items())),
                tuple(sorted((a.major, n) for a, n in m.solution.items())), tuple(sorted(map(str, m.added))))

    current = {}

    def wrap(gene, coverage, major_sol, alleles_list, mutations, solver, max_solutions=1):
        out = orig(gene, coverage, major_sol, alleles_list, mutations, solver, max_solutions)
        current[key(major_sol)] = sorted(
            (tuple(sorted((a.major, a.minor, tuple(sorted(map(str, a.added))), tuple(sorted(map(str, a.missing))))
                          for a in o.solution)), round(o.score, 3)) for o in out)
        return out

    aldy.minor.solve_minor_model = wrap
    try:
        arrangements = []
        idx = list(range(len(majors)))
        for r in range(1, len(idx) + 1):
            for sub in itertools.combinations(idx, r):
                perms = list(itertools.permutations(sub))
                rng.shuffle(perms)
                arrangements += perms[:3]
        first_result = None
        for arr in arrangements[:40]:
            current.clear()
            try:
                with util.time_limit(60):
                    estimate_minor(g, s.coverage, [majors[i] for i in arr], "any")
            except (util.Slow, RecursionError):
                res.count("skipped_slow")
                continue
            for k_, v in current.items():
                seen[k_][arr] = v
            if first_result is None:
                first_result = (arr, dict(current))
        # calls made on the evidence object that earlier calls had used, repeated on a sample loaded afresh: nothing
        # a stage call leaves behind may change a later call
        done_arrs = [a for a in arrangements[:40] if any(a in by for by in seen.values())]
        for arr in rng.sample(done_arrs[1:], min(6, max(0, len(done_arrs) - 1))):
            current.clear()
            try:
                with util.time_limit(60):
                    estimate_minor(g, Sample(g, prof, bam).coverage, [majors[i] for i in arr], "any")
            except (util.Slow, RecursionError):
                res.count("skipped_slow")
                continue
            used = {k_: by[arr] for k_, by in seen.items() if arr in by}
            res.check("minor_repeat_same", dict(current) == used,
                      "a refinement call on evidence that earlier calls had used differs from the same call on the "
                      "sample loaded afresh", arrangement=list(arr), on_used_evidence=str(used)[:300],
                      on_fresh_sample=str(dict(current))[:300], **desc)
        # the very first call again, on the evidence object all the other calls have used in between, and on a
        # sample loaded afresh from the same file: a stage call must not leave anything behind on the evidence
        if first_result is not None:
            arr0, want0 = first_result
            for label, cov_ in (("same evidence object, after the other calls", s.coverage),
                                ("sample loaded afresh", Sample(g, prof, bam).coverage)):
                current.clear()
                try:
                    with util.time_limit(60):
                        estimate_minor(g, cov_, [majors[i] for i in arr0], "any")
                except (util.Slow, RecursionError):
                    res.count("skipped_slow")
                    continue
                res.check("minor_repeat_same", dict(current) == want0,
                          "repeating a refinement call gives a different result: " + label,
                          arrangement=list(arr0), first=str(want0)[:300], again=str(dict(current))[:300], **desc)
    finally:
        aldy.minor.solve_minor_model = orig
    def documented_behaviour(arr, target):
        """What the shared evidence filter of one call means for one candidate: variants / candidate minors
        pooled over the call's candidates (thresholds from the candidate's own structure)."""
        from aldy.coverage import Coverage
        from aldy.gene import Mutation
        from aldy.solutions import SolvedAllele

        sols_ = [majors[i] for i in arr]
        alleles, muts = [], set()
        for ms in sols_:
            for sa in ms.solution:
                alleles += [SolvedAllele(g, sa.major, mi) for mi in g.alleles[sa.major].minors]
                muts |= set(g.alleles[sa.major].func_muts)
                for mi in g.alleles[sa.major].minors.values():
                    muts |= set(mi.neutral_muts)
            muts |= set(ms.added)
        muts |= g.random_mutations
        own_cn = target.cn_solution  # (thresholds from the candidate's own structure since fix 6b29664)

        def flt(cov, mut):
            r = g.region_at(mut.pos)
            if mut.op not in ["_", "-"] and not (mut in muts or (r and r[1][0] == "e")
                                                 or (r and r[1] in ["utr3", "utr5", "up"])):
                return False
            cond = cov.basic_filter(mut, cn=prof.cn_max)
            if mut.op != "_":
                cond = cond and cov.basic_filter(mut, cn=own_cn.position_cn(mut.pos) + 0.5)
            return cond

        # on evidence loaded afresh: nothing an earlier call may have left on the shared sample takes part
        cov = Sample(g, prof, bam).coverage.filtered(Coverage.quality_filter).filtered(flt)
        out = orig(g, cov, target, alleles, muts, "any", 1)
        return sorted(
            (tuple(sorted((a.major, a.minor, tuple(sorted(map(str, a.added))), tuple(sorted(map(str, a.missing))))
                          for a in o.solution)), round(o.score, 3)) for o in out)

    by_key = {key(m): m for m in majors}
    for k_, by_arr in seen.items():
        vals = list(by_arr.items())
        alone = [v for a, v in vals if len(a) == 1]
        base = alone[0] if alone else vals[0][1]
        for arr, v in vals:
            if v == base:
                res.check("minor_candidate_isolated", True)
                continue
            try:
                expected = documented_behaviour(arr, by_key[k_])
            except Exception as e:
                expected = repr(e)
            res.check("minor_candidate_isolated", False,
                      "the refinement of a candidate depends on which other candidates are refined with it / their order",
                      mech="minor-candidates-share-filter-and-variants" if expected == v else None,
                      candidate=str(k_)[:200], alone=str(base)[:300], arrangement=list(arr), together=str(v)[:300],
                      **desc)
    return desc


def _param_change_case(res, case):
    """Stage calls on one loaded sample, then the quality thresholds of its profile are changed and the stages are
    called again: the result must equal that of a sample loaded the same way on which no stage had run before
    the change (nothing computed under the earlier parameters may survive on the evidence)."""
    import copy

    from aldy.cn import estimate_cn
    from aldy.common import AldyException
    from aldy.gene import Gene
    from aldy.major import estimate_major
    from aldy.minor import estimate_minor
    from aldy.profile import Profile
    from aldy.sam import Sample

    rng = util.rng_for("c14p", case["seed"], case["k"])
    genome = rng.choice(["hg19", "hg38"])
    db = _sim.gen_db(rng.randrange(30), genome, want_cn=True)
    g = Gene(db.path, genome=genome)
    copies = _sim.random_genotype(db, rng, n=2, allow_structural=False)
    haps = reads.haplotypes_for(g, copies)
    rds = reads.simulate(g, haps, rl=100, depth=24, ref=db.ref, neutral=db.neutral, rng=rng)
    # the reads of the second copy are of middling quality: eligible under the first thresholds, not under the new
    for r in rds:
        if r.get("hap") == 1:
            if rng.random() < 0.5:
                r["qual"] = [22] * len(r["seq"])
            else:
                r["mapq"] = 25
    bam = reads.write_bam(os.path.join(util.scratch_dir(), "pc.bam"), db.chrom, db.contig_len, rds)
    new = rng.choice([{"min_quality": 30}, {"min_mapq": 40}, {"min_quality": 30, "min_mapq": 40}])
    desc = {"db": db.label, "planted": [list(c[:2]) for c in copies], "new_thresholds": new}

    def chain(smp):
        prof = smp.profile
        cns = estimate_cn(g, prof, smp.coverage, "any")
        majors = [m for c in cns[:2] for m in estimate_major(g, smp.coverage, c, "any")]
        minors = estimate_minor(g, smp.coverage, majors[:3], "any") if majors else []
        return (sorted((tuple(sorted(c.solution.items())), round(c.score, 9)) for c in cns),
                sorted((tuple(sorted((a.major, n) for a, n in m.solution.items())), tuple(map(str, m.added)),
                        round(m.score, 9)) for m in majors),
                sorted((tuple(sorted((a.major, a.minor, tuple(map(str, a.added)), tuple(map(str, a.missing)))
                                     for a in m.solution)), round(m.score, 6)) for m in minors))

    try:
        with util.time_limit(120):
            used = Sample(g, Profile.load(g, db.ref_bam(100, 24), db.cn_region()), bam)
            before = chain(used)
            used.profile.update(new)
            after_used = chain(used)
            fresh = Sample(g, Profile.load(g, db.ref_bam(100, 24), db.cn_region()), bam)
            fresh.profile.update(new)
            after_fresh = chain(fresh)
    except util.Slow:
        res.count("skipped_slow")
        return None
    except (AldyException, RecursionError):
        res.count("param_change_rejected")
        return None
    res.check("parameters_take_effect_on_used_evidence", after_used == after_fresh,
              "after changing the quality thresholds, stage calls on a sample that had been used before differ from "
              "those on the same sample loaded afresh", used=str(after_used)[:400], fresh=str(after_fresh)[:400], **desc)
    if before != after_fresh:
        res.count("param_change_changed_the_call")
    return desc


def run(case):
    util.import_aldy()
    res = Res()
    fn = {"history": _history_case, "param_change": _param_change_case, "api": _api_case, "hashseed": _hashseed_case,
          "minor_isolation": _minor_isolation_case, "history_shipped": _history_shipped_case,
          "simple_multi": _simple_multi_case}[case["kind"]]
    d = fn(res, case)
    res.fp = util.fingerprint([case, d])
    res.nontrivial = d is not None
    if d is not None and case["k"] < 2:
        res.sample = dict(d, kind=case["kind"])
    return res
