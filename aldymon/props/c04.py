"""C04 - minor-allele refinement preserves the major call and is optimal.

Monitor: wrapper at the solve_minor_model boundary (arguments, result, scores before genotype()
rewrites them) + lpmon (the optimum's own assignment and objective coefficients, which give the
tie-breaker-free score); oracle: ref/minorref.py.
"""
import collections

from .. import lpmon, util
from ..gen import tables
from ..ref import minorref
from ..util import Res
from . import _tables

ID = "C04"
RULE = (
    "opt cases: (database, build, major solution of 1-3 copies incl. fused alleles and novel core "
    "variants, planted minor alleles with perturbed silent variants, noisy integer table, optional "
    "read-phase records) on the toy gene, generated and small shipped databases; every reported "
    "refinement is checked against the statement's rules, its score against the reference objective "
    "of the assignment, and optimality by position-decomposed / branch-and-bound search; non-trivial "
    "= some non-reference allele and (noise or perturbation or phase); pairs cases: noise-free pairs "
    "of catalogued minor alleles of shipped genes; distinct by the full case description"
)
ASSUMPTIONS = [
    "ref/minorref.py restates the documented objective (validated by seeded mutants)",
    "scores are compared with the tie-breaker part removed exactly (objective coefficients of the live model)",
    "optimality is claimed up to the tie-breaker mass of the witness; searches cut by the node cap are counted as skipped",
]
MIN = {
    "quick": {"majors_preserved": 200, "minor_of_major": 200, "core_never_dropped": 200,
              "added_has_copies_and_support": 60, "carried_has_support": 200, "one_per_site": 200,
              "supported_variant_carried": 200, "score_equals_objective": 150, "none_lower": 100,
              "noise_free_reproduces": 150, "filter_as_documented": 2000},
    "thorough": {"majors_preserved": 4000, "minor_of_major": 4000, "core_never_dropped": 4000,
                 "added_has_copies_and_support": 2000, "carried_has_support": 4000, "one_per_site": 4000,
                 "supported_variant_carried": 4000, "score_equals_objective": 3000, "none_lower": 2000,
                 "noise_free_reproduces": 3000},
}
CASE_TIMEOUT = {"quick": 900, "thorough": 3000}
TOTAL_TIMEOUT = {"quick": 1800, "thorough": 7200}
TOL = 1e-4
OPT_GENES = ["toy", "toy", "toy", "gen", "gen", "gen", "cyp2c19", "tpmt", "nudt15", "cyp2a6"]


def plan(tier, seed):
    util.import_aldy()
    cases = []
    nopt = 128 if tier == "quick" else 2400
    for b in range(nopt):
        cases.append({"kind": "opt", "seed": seed, "batch": b, "n": 6})
    names = tables.shipped_gene_names()
    for gname in names:
        for genome in (("hg19", "hg38") if tier == "thorough" else (("hg19",) if hash(gname) % 2 else ("hg38",))):
            cases.append({"kind": "pairs", "gene": gname, "genome": genome, "seed": seed,
                          "n": 8 if tier == "quick" else 120})
    for b in range(4 if tier == "quick" else 40):
        cases.append({"kind": "pairs", "gene": "gen", "genome": "hg19" if b % 2 else "hg38",
                      "seed": seed + b, "n": 10})
    return cases


class Capture:
    def __init__(self):
        import aldy.minor

        self.calls = []
        self.mod = aldy.minor
        self.orig = aldy.minor.solve_minor_model

        def wrap(gene, coverage, major_sol, alleles_list, mutations, solver, max_solutions=1):
            n0 = len(lpmon.RECORDS)
            out = self.orig(gene, coverage, major_sol, alleles_list, mutations, solver, max_solutions)
            rec = lpmon.RECORDS[n0] if len(lpmon.RECORDS) > n0 else None
            self.calls.append({
                "gene": gene, "cov": coverage, "major_sol": major_sol, "alleles": list(alleles_list),
                "mutations": set(mutations), "max_solutions": max_solutions, "sols": out,
                "scores": [s.score for s in out], "rec": rec,
            })
            return out

        self.wrap = wrap

    def __enter__(self):
        self.mod.solve_minor_model = self.wrap
        return self

    def __exit__(self, *a):
        self.mod.solve_minor_model = self.orig


def model_assignments(call):
    """For every yielded solution of the captured model: (objective, tie-breaker-free objective,
    [(major, minor, carried set)] in the model's own copy order)."""
    from aldy.lpinterface import escape_name

    rec = call["rec"]
    if rec is None or not rec.traces:
        return []
    gene, major_sol = call["gene"], call["major_sol"]
    prof = call["cov"].profile
    from aldy.solutions import SolvedAllele

    keys = []
    seen = set()
    for a in call["alleles"]:
        if (a.major, a.minor) not in seen:
            seen.add((a.major, a.minor))
            keys.append((a.major, a.minor, 0))
    for ma, mi, _ in list(keys):
        c = major_sol.solution.get(SolvedAllele(gene, ma, "", [], []), 0)
        for k in range(1, c):
            keys.append((ma, mi, k))
    muts = sorted(call["mutations"])
    out = []
    for y in rec.traces[0].yields:
        active = set(y["names"])
        assign = []
        for ma, mi, k in keys:
            if escape_name(f"A_{ma}_{mi}_{k}") not in active:
                continue
            own = tables.allele_variants(gene, ma, mi)
            carried = set()
            for m in muts:
                pre = "K" if m in own else "N"
                if escape_name(f"{pre}_{m.pos}_{m.op}_{ma}_{mi}_{k}") in active:
                    carried.add(m)
            assign.append((ma, mi, frozenset(carried)))
        tie = sum(cf - prof.minor_add for n, cf in y["coef"].items() if n.startswith("N_"))
        out.append((y["obj"], y["obj"] - tie, assign))
    return out


def check_minor_call(res, call, desc, planted=None, noise_free=False, check_opt=True):
    from aldy.gene import Mutation

    gene, cov, major_sol = call["gene"], call["cov"], call["major_sol"]
    cn = major_sol.cn_solution
    ref = minorref.MinorRef(gene, cov, major_sol, call["alleles"], call["mutations"])
    massign = model_assignments(call)
    want_majors = collections.Counter()
    for sa, c in major_sol.solution.items():
        want_majors[sa.major] += c
    max_cn = cn.max_cn()
    nontrivial = False
    for si, (sol, score) in enumerate(zip(call["sols"], call["scores"])):
        got = collections.Counter(a.major for a in sol.solution)
        res.check("majors_preserved", got == want_majors,
                  "refined solution does not name exactly the major solution's alleles",
                  got=dict(got), want=dict(want_majors), **desc)
        reported = []
        for a in sol.solution:
            ok = a.major in gene.alleles and a.minor in gene.alleles[a.major].minors
            res.check("minor_of_major", ok, "reported minor allele is not a minor of that major allele",
                      major=a.major, minor=a.minor, **desc)
            if not ok:
                continue
            own = tables.allele_variants(gene, a.major, a.minor)
            miss, add = set(a.missing), set(a.added)
            res.check("core_never_dropped", not any(gene.is_functional(m) for m in miss),
                      "a core variant of a called allele is reported as lost",
                      allele=a.minor, lost=[str(m) for m in miss if gene.is_functional(m)], **desc)
            res.check("missing_is_own", miss <= own, "a lost variant is not in the allele's definition",
                      allele=a.minor, lost=[str(m) for m in miss - own], **desc)
            carried = (own - miss) | add
            reported.append((a.major, a.minor, frozenset(carried), frozenset(add), own))
        # the model's own assignment for this solution (several yields can share score and minors)
        def diff_against(assign):
            h = []
            if len(assign) != len(reported):
                return None
            for i, ((ma, mi, cs), r) in enumerate(zip(assign, reported)):
                if (ma, mi) != (r[0], r[1]):
                    return None
                if cs - r[2]:
                    return None
                for m in r[2] - cs:
                    sc = cov.single_copy(m, cn)
                    copies = cov[m] / sc if sc > 0 else 0
                    if abs(copies - max_cn) <= 1e-5 and m not in r[4]:
                        h.append((i, m))
                    else:
                        return None
            return h

        mine, hack = None, None
        for obj, tiefree, assign in massign:
            if abs(obj - score) <= 1e-9 and collections.Counter((ma, mi) for ma, mi, _ in assign) == \
                    collections.Counter((r[0], r[1]) for r in reported):
                h = diff_against(assign)
                if mine is None or (h is not None and (hack is None or len(h) < len(hack))):
                    mine, hack = (obj, tiefree, assign), h
        hackset = set(hack or [])
        for i, (ma, mi, carried, add, own) in enumerate(reported):
            for m in add:
                ok = gene.has_coverage(ma, m.pos) and cov[m] > 0
                res.check("added_has_copies_and_support", ok,
                          "variant added to an allele without gene copies at that position or without filtered support",
                          allele=mi, variant=str(m), support=cov[m], **desc)
            for m in carried:
                res.check("carried_has_support", cov[m] > 0,
                          "reported allele carries a variant without supporting reads",
                          allele=mi, variant=str(m), **desc)
            bypos = collections.Counter(m.pos for m in carried)
            dup = [p for p, k in bypos.items() if k > 1]
            mech = None
            if dup and hack is not None and all(
                    any((i, m) in hackset for m in carried if m.pos == p) for p in dup):
                mech = "homozygous-readout"
            res.check("one_per_site", not dup, "allele carries two variants at one position",
                      mech=mech, allele=mi, positions=dup,
                      variants=[str(m) for m in carried if m.pos in dup], **desc)
        carried_any = set(m for r in reported for m in r[2])
        for m in call["mutations"]:
            if cov[m] > 0 and cn.position_cn(m.pos) > 0:
                res.check("supported_variant_carried", m in carried_any,
                          "considered variant with supporting reads is carried by no allele",
                          variant=str(m), support=cov[m], **desc)
        # score of the assignment
        if mine is None:
            res.check("model_assignment_found", False,
                      "no yielded solution of the model matches the reported solution and score", score=score, **desc)
            continue
        obj, tiefree, assign = mine
        sref = ref.score([(ma, mi, cs) for ma, mi, cs in assign])
        res.check("score_equals_objective", abs(sref - tiefree) <= TOL * max(1, abs(tiefree)),
                  "reported score differs from the documented objective of the optimum's assignment",
                  reported=score, tie_breaker_free=tiefree, reference=sref,
                  assignment=[[ma, mi, sorted(str(m) for m in cs)] for ma, mi, cs in assign], **desc)
        same = hack is not None and not hack
        if hack is None:
            res.check("reported_is_scored_assignment", False,
                      "reported alleles differ from the assignment the score belongs to", **desc)
        elif hack:
            res.check("reported_is_scored_assignment", False,
                      "read-out added unambiguously homozygous variants to alleles the optimum did not give them to: "
                      "the reported score is not the objective of the reported assignment",
                      mech="homozygous-readout",
                      added_by_readout=[[reported[i][1], str(m)] for i, m in hack], **desc)
        else:
            res.check("reported_is_scored_assignment", True)
        if si == 0 and check_opt:
            try:
                with util.time_limit(20):
                    opt, wit = ref.optimum(upper=tiefree - TOL, node_cap=60000)
            except util.Slow:
                opt, wit = None, None
            if opt is None:
                res.count("skipped_search_cap")
            elif opt < tiefree - TOL * max(1, abs(tiefree)):
                n_add_vars = sum(1 for n in call["rec"].initial.names if n.startswith("N_"))
                n_adds = 0
                if wit:
                    copies = [minorref.Copy(gene, ma, mi) for ma, mi in wit[0]]
                    for st in wit[1]:
                        for c, cs in zip(copies, st):
                            n_adds += sum(1 for m in cs if m not in c.own)
                band = cov.profile.minor_add * n_add_vars / 1e6 * n_adds
                if opt < tiefree - TOL - band:
                    res.check("none_lower", False, "an admissible assignment scores lower than the reported one",
                              reported=tiefree, reference=opt,
                              witness=[[list(wit[0])], [[sorted(str(m) for m in cs) for cs in st] for st in wit[1]]]
                              if wit else None, **desc)
                else:
                    res.count("optimal_within_tiebreak_band")
            else:
                res.check("none_lower", True)
        # only for evidence planted from catalogued alleles as they are (perturbed haplotypes can tie)
        planted_ok = planted is not None and all(
            not c[2] and not c[3] for c in planted if len(c) > 2)
        if noise_free and planted_ok:
            want = collections.Counter()
            for c in planted:
                vs = tables.allele_variants(gene, c[0], c[1])
                if len(c) > 2:
                    vs = (vs | set(c[2])) - set(c[3])
                for m in vs:
                    want[m] += 1
            have = collections.Counter(m for r in reported for m in r[2])
            mech = None
            if have != want and hack:
                have2 = collections.Counter(have)
                for i, m in hack:
                    have2[m] -= 1
                if +have2 == want:
                    mech = "homozygous-readout"
            res.check("noise_free_reproduces", have == want,
                      "noise-free evidence: reported variants (with multiplicity) differ from the planted haplotypes",
                      mech=mech,
                      surplus=[str(m) for m in (have - want).elements()],
                      lacking=[str(m) for m in (want - have).elements()],
                      alleles=[r[1] for r in reported], **desc)
        nontrivial = True
    if not call["sols"]:
        # nothing reported: the reference must not find an admissible assignment either
        try:
            with util.time_limit(15):
                opt, wit = ref.optimum(node_cap=60000)
        except util.Slow:
            opt, wit = None, None
        if opt is None:
            res.count("skipped_search_cap")
        else:
            res.check("none_lower", opt == minorref.INF,
                      "no refinement reported although an admissible assignment exists", reference=opt, **desc)
    return nontrivial


def check_filter(res, g, raw, call, desc):
    """The evidence handed to the model is the documented filter of the raw evidence: a variant keeps its support
    iff it has at least min_coverage supporting reads, at least threshold / cn_max of the locus depth and at least
    threshold / (copies at that site + 0.5) of it; uncatalogued variants outside exons / UTRs / upstream are dropped;
    a reference allele needs min_coverage and threshold / cn_max only.  (All observations here pass the quality
    thresholds; C15 covers those.)"""
    from aldy.gene import Mutation

    from ..ref import evidence

    prof = raw.profile
    cn = call["major_sol"].cn_solution
    fil = call["cov"]
    considered = set(call["mutations"])
    sites = {m.pos for m in considered}
    todo = set(considered) | {Mutation(p, "_") for p in sites}
    for p in sites:
        for op in raw._coverage.get(p, {}):
            todo.add(Mutation(p, op))
    for m in sorted(todo):
        sup, dep = evidence.support(raw, m), evidence.locus_depth(raw, m)
        keep = sup >= max(prof.min_coverage, dep * prof.threshold / prof.cn_max)
        if m.op != "_":
            keep = keep and sup >= max(prof.min_coverage, dep * prof.threshold / (cn.position_cn(m.pos) + 0.5))
        if m.op not in ("_", "-") and m not in considered:
            r = g.region_at(m.pos)
            keep = keep and bool(r) and (r[1][0] == "e" or r[1] in ("utr3", "utr5", "up"))
        if sup == 0:
            continue
        got = evidence.support(fil, m) > 0
        res.check("filter_as_documented", got == keep,
                  "filtered evidence of a variant differs from the documented noise filter",
                  variant=str(m), support=sup, locus_depth=dep, copies_at_site=cn.position_cn(m.pos),
                  kept=got, expected_kept=keep, **desc)


def _phases_for(g, copies, counts, rng, n_frag):
    """Fragments, each from one copy, covering 2-4 neighbouring variant sites."""
    sites = sorted(counts)
    phases = {}
    if len(sites) < 2:
        return phases
    for f in range(n_frag):
        c = rng.choice(copies)
        major = c[0]
        vs = tables.allele_variants(g, c[0], c[1])
        if len(c) > 2:
            vs = (vs | set(c[2])) - set(c[3])
        i = rng.randrange(len(sites))
        span = sites[i: i + rng.choice([2, 2, 3, 4])]
        rec = {}
        for p in span:
            if not g.has_coverage(major, p):
                continue
            here = [m for m in vs if m.pos == p]
            non_ins = [m for m in here if not m.op.startswith("ins")]
            rec[p] = (non_ins[0].op if non_ins else (here[0].op if here else "_"))
            if rng.random() < 0.05:
                rec[p] = "_"
        if len(rec) > 1:
            phases[f"f{f}"] = rec
    # fragments of complete copies that straddle the break point of a fused copy: exactly one of their sites lies in
    # the part the fused allele keeps (such a fragment must not be explained away by the fused copy)
    fused = [c for c in copies if g.alleles[c[0]].cn_config != "1"]
    full = [c for c in copies if g.alleles[c[0]].cn_config == "1"]
    if fused and full:
        fm = fused[0][0]
        kept = [p for p in sites if g.has_coverage(fm, p)]
        lost = [p for p in sites if not g.has_coverage(fm, p)]
        if kept and lost:
            for f in range(max(2, n_frag // 3)):
                c = rng.choice(full)
                vs = tables.allele_variants(g, c[0], c[1])
                if len(c) > 2:
                    vs = (vs | set(c[2])) - set(c[3])
                k_ = rng.choice(kept)
                span = sorted(set([k_] + rng.sample(lost, min(len(lost), rng.choice([1, 2])))))
                rec = {}
                for p in span:
                    here = [m for m in vs if m.pos == p]
                    non_ins = [m for m in here if not m.op.startswith("ins")]
                    rec[p] = (non_ins[0].op if non_ins else (here[0].op if here else "_"))
                if len(rec) > 1:
                    phases[f"s{f}"] = rec
    return phases


def _perturb(g, copies, rng):
    """Move / drop / borrow silent variants so that keep/add logic is exercised."""
    out = []
    silent = sorted(m for m in g.mutations if not g.is_functional(m))
    for ma, mi in copies:
        add, miss = set(), set()
        own = tables.allele_variants(g, ma, mi)
        r = rng.random()
        neutral = sorted(m for m in own if not g.is_functional(m))
        if r < 0.25 and neutral:
            miss.add(rng.choice(neutral))
        elif r < 0.5 and silent:
            from aldy.gene import Mutation

            m = Mutation(*rng.choice(silent))
            if m not in own and g.has_coverage(ma, m.pos) and not any(
                    o.pos == m.pos for o in own):
                add.add(m)
        out.append((ma, mi, add, miss))
    return out


def _opt_case(res, rng, ident):
    from aldy.gene import Mutation
    from aldy.minor import estimate_minor
    from aldy.profile import Profile
    from aldy.solutions import CNSolution, MajorSolution, SolvedAllele

    gname = rng.choice(OPT_GENES)
    genome = rng.choice(["hg19", "hg38"])
    if gname == "gen":
        from ..gen import dbgen

        g = dbgen.random_gene(rng, genome=genome, hostile=rng.choice([0.3, 0.9]))
    else:
        g = tables.gene(gname, genome)
    ncop = rng.choice([1, 2, 2, 2, 3]) if gname in ("toy", "gen") else rng.choice([1, 2, 2])
    copies = _tables.random_copies(g, rng, n=ncop)
    # site stress: several catalogued variants at one position (e.g. an insertion and a substitution);
    # make sure an allele owning one of them is planted, then add support for the others below
    bypos = collections.defaultdict(list)
    for (p_, o_) in g.mutations:
        bypos[p_].append(o_)
    multi = sorted(p_ for p_, ops in bypos.items() if len(ops) > 1)
    stress_pos = None
    if multi and rng.random() < 0.7:
        stress_pos = rng.choice(multi)
        owners = [c for c in tables.all_copies(g) if g.alleles[c[0]].cn_config == "1"
                  and any(m.pos == stress_pos for m in tables.allele_variants(g, *c))]
        if owners:
            for i in range(rng.choice([1, 1, 2])):
                if i < len(copies) and g.alleles[copies[i][0]].cn_config == "1":
                    copies[i] = rng.choice(owners)
    pert = _perturb(g, copies, rng) if rng.random() < 0.6 else [(a, b, set(), set()) for a, b in copies]
    # a structure that names the whole-gene deletion explicitly (as the structure stage reports it): the deletion
    # allele is a called copy without any gene region
    dele = g.deletion_allele()
    explicit_del = bool(dele) and dele in g.alleles and g.alleles[dele].minors and rng.random() < 0.15
    depth = rng.choice([10, 20, 30])
    eps = rng.choice([0, 0, 0.1, 0.2, 0.35])
    extra = {}
    novel = []
    fm = sorted(m for m in g.mutations if g.is_functional(m))
    if fm and rng.random() < 0.2:
        m = Mutation(*rng.choice(fm))
        carried = set()
        for c in pert:
            carried |= tables.allele_variants(g, c[0], c[1])
        if m not in carried and not any(o.pos == m.pos for o in carried):
            extra[(m.pos, m.op)] = depth
            novel.append(m)
    stressed = False
    if stress_pos is not None:
        for o_ in bypos[stress_pos]:
            extra[(stress_pos, o_)] = extra.get((stress_pos, o_), 0) + depth * rng.choice([1, 1, 2, 3])
        stressed = True
    # weak spurious support for catalogued variants nobody carries: between a tenth and half of one copy's depth
    # (around the per-site noise thresholds, which depend on the copy number at that very site)
    weak = []
    if rng.random() < 0.4:
        carried_ = set()
        for c in pert:
            carried_ |= (tables.allele_variants(g, c[0], c[1]) | set(c[2])) - set(c[3])
        spare_ = sorted(Mutation(*m) for m in g.mutations
                        if Mutation(*m) not in carried_ and (m[0], m[1]) not in extra)
        for m in rng.sample(spare_, min(len(spare_), rng.choice([1, 2, 3]))):
            ncov = sum(1 for c in pert if g.has_coverage(c[0], m.pos))
            k = int(round(depth * max(1, ncov) * rng.uniform(0.08, 0.48)))
            if k:
                extra[(m.pos, m.op)] = k
                weak.append(m)
    counts = tables.noisy(tables.planted_counts(g, pert, depth, extra_variants=extra), rng, eps)
    use_phase = rng.random() < 0.4
    phases = _phases_for(g, pert, counts, rng, rng.choice([4, 10, 25])) if use_phase else None
    prof = Profile("test", phase=use_phase)
    if rng.random() < 0.15:
        prof.update({"minor_add": rng.choice([0.5, 1.0, 2.0]), "minor_miss": rng.choice([1.0, 1.5])})
    # uncatalogued variants through the `novel` switch of the programming interface
    use_novel = rng.random() < 0.15
    if use_novel:
        for _ in range(rng.choice([1, 2])):
            exonic = [c for c in g.chr_to_ref if any(s_ <= g.chr_to_ref[c] < e_ for s_, e_ in g.exons)]
            if exonic:
                p_ = rng.choice(exonic)
                b_ = g[p_]
                if b_ in "ACGT" and p_ not in counts:
                    alt_ = rng.choice([x for x in "ACGT" if x != b_])
                    counts[p_] = {"_": depth * len(pert) - depth, f"{b_}>{alt_}": depth}
    indel_table = None
    if rng.random() < 0.3:
        counts, indel_table = tables.split_indel_table(g, counts, rng)
        indel_table = indel_table or None
    cov = tables.make_coverage(g, counts, profile=prof, phases=phases, indels=indel_table)
    if indel_table and any(sum(v) != sum(n for o, n in counts.get(k[0], {}).items() if o[:3] != "ins")
                           for k, v in indel_table.items()):
        stressed = True  # rounding makes the evidence not exactly noise-free
    cn = CNSolution(g, 0, tables.cn_list(g, copies) + ([g.alleles[dele].cn_config] if explicit_del else []))
    majors = collections.Counter(c[0] for c in copies)
    if explicit_del:
        majors[dele] += 1
    major = MajorSolution(0, collections.Counter({SolvedAllele(g, m): c for m, c in majors.items()}),
                          cn, list(novel))
    max_solutions = rng.choice([1, 1, 1, 3])
    # companions: other candidate major solutions refined in the same call (their minors and variants are pooled)
    companions = []
    if rng.random() < 0.35:
        names = [a for a, al in g.alleles.items() if al.cn_config == "1"]
        for _ in range(rng.choice([1, 2])):
            alt = list(majors.elements())
            alt[rng.randrange(len(alt))] = rng.choice(names)
            altc = collections.Counter(alt)
            if altc != majors and all(g.alleles[a].cn_config in cn.solution for a in altc):
                cfg = collections.Counter(g.alleles[a].cn_config for a in altc.elements())
                if cfg == collections.Counter(cn.solution):
                    nov = [m for m in fm if rng.random() < 0.1][:1]
                    companions.append(MajorSolution(rng.choice([0, 0.5]), collections.Counter(
                        {SolvedAllele(g, m): c for m, c in altc.items()}), cn, [Mutation(*x) for x in nov]))
    desc = {"gene": gname, "genome": genome, "ident": ident, "depth": depth, "eps": eps,
            "planted": [[c[0], c[1], sorted(str(m) for m in c[2]), sorted(str(m) for m in c[3])] for c in pert],
            "novel": [str(m) for m in novel], "phase_fragments": len(phases or {}),
            "max_solutions": max_solutions, "companions": len(companions), "novel_switch": use_novel,
            "explicit_deletion": explicit_del, "weak_support": [str(m) for m in weak]}
    lpmon.reset()
    with Capture() as cap:
        try:
            with util.time_limit(25):
                estimate_minor(g, cov, [major] + companions, "any", max_solutions=max_solutions, novel=use_novel)
        except RecursionError:
            res.count("skipped_recursion")
            return None
        except util.Slow:
            res.count("skipped_slow_enumeration")
            return None
    for rec in lpmon.RECORDS:
        for p in rec.problems:
            res.check("lp_" + p.clause, False, p.what, **p.w)
    if not cap.calls:
        return None
    noise_free = eps == 0 and not novel and not use_phase and not stressed and not use_novel and not weak
    nt = False
    for call in cap.calls:
        check_filter(res, g, cov, call, desc)
        mine = call["major_sol"] is major or (
            collections.Counter({a.major: c for a, c in call["major_sol"].solution.items()}) == majors
            and list(call["major_sol"].added) == list(novel))
        nt = check_minor_call(res, call, dict(desc, candidate="planted" if mine else "companion"),
                              planted=pert if mine else None, noise_free=noise_free and mine) or nt
    res.count("phase_cases" if use_phase else "nophase_cases")
    if nt and (any(c[0] != "1" or c[2] or c[3] for c in pert)) and (eps or use_phase or any(c[2] or c[3] for c in pert)):
        return desc
    return None


def _pairs_case(res, case):
    import itertools

    from aldy.minor import estimate_minor
    from aldy.profile import Profile
    from aldy.solutions import CNSolution, MajorSolution, SolvedAllele

    rng = util.rng_for("c04pairs", case["seed"], case["gene"], case["genome"])
    if case["gene"] == "gen":
        from ..gen import dbgen

        g = dbgen.random_gene(rng, genome=case["genome"])
    else:
        g = tables.gene(case["gene"], case["genome"])
    dele = g.deletion_allele()
    minors = [c for c in tables.all_copies(g) if c[0] != dele and g.alleles[c[0]].cn_config == "1"]
    fps = []
    prof = Profile("test", phase=False)
    for _ in range(case["n"]):
        pair = [rng.choice(minors), rng.choice(minors)]
        if rng.random() < 0.15:
            pair = pair[:1] if dele else pair + [rng.choice(minors)]
        # variants of the planted alleles must be jointly observable at a site
        counts = tables.planted_counts(g, pair, 20)
        cov = tables.make_coverage(g, counts, profile=prof)
        cfgs = tables.cn_list(g, pair) + ([dele] if dele and len(pair) == 1 else [])
        cn = CNSolution(g, 0, cfgs)
        majors = collections.Counter(c[0] for c in pair)
        major = MajorSolution(0, collections.Counter({SolvedAllele(g, m): c for m, c in majors.items()}),
                              cn, [])
        desc = {"gene": case["gene"], "genome": case["genome"], "planted": [list(p) for p in pair]}
        lpmon.reset()
        with Capture() as cap:
            estimate_minor(g, cov, [major], "any")
        if not cap.calls:
            continue
        small = len(g.mutations) <= 400
        check_minor_call(res, cap.calls[0], desc, planted=pair, noise_free=True, check_opt=small)
        if any(tables.allele_variants(g, *p) for p in pair):
            fps.append(util.fingerprint(desc))
    if res.sample is None:
        res.sample = {"kind": "pairs", "gene": case["gene"], "genome": case["genome"], "n": case["n"]}
    return fps


def run(case):
    util.import_aldy()
    lpmon.install()
    res = Res()
    fps = []
    if case["kind"] == "opt":
        for k in range(case["n"]):
            rng = util.rng_for("c04", case["seed"], case["batch"], k)
            d = _opt_case(res, rng, [case["seed"], case["batch"], k])
            res.count("opt_cases")
            if d:
                fps.append(util.fingerprint(d))
                if res.sample is None and case["batch"] < 3:
                    res.sample = d
    else:
        fps = _pairs_case(res, case)
    res.fp = util.fingerprint(fps)
    res.nontrivial = bool(fps)
    res.counters["distinct_nontrivial_inputs"] = len(set(fps))
    return res


def summarize(results):
    return {"distinct_nontrivial_inputs": sum(r["counters"].get("distinct_nontrivial_inputs", 0) for r in results)}
