"""C10 - reported solutions are the best candidates and are internally consistent.

Monitor: the returns of the three stages are recorded *at their boundaries* during one genotype()
call (scores copied before genotype() rewrites them in place); the final selection is recomputed
independently from the raw stage scores and compared with what genotype() returns.
"""
import collections
import os

from .. import util
from ..gen import reads, tables
from ..util import Res
from . import _sim

ID = "C10"
RULE = (
    "one case = a simulated sample with competing explanations (a third copy at 0.4-0.8 of a copy's "
    "depth, sequencing errors, coverage jitter), gap in {0, 0.1, 0.3}, 1-3 minor solutions per major "
    "solution; the reported list is recomputed from the recorded raw stage scores; non-trivial = at "
    "least two refined candidates from different major or structure solutions; distinct by the case "
    "description.  Plus forced empty stages."
)
ASSUMPTIONS = [
    "solution precision 1e-2 (aldy.common.SOLUTION_PRECISION) at the gap boundary; a don't-care band of 1e-6 around it",
    "order is checked on the documented sort key (score in 1e-3 steps, then name)",
]
MIN = {
    "quick": {"reported_set": 80, "ordered": 80, "structures_passed_on": 80, "chain_structure": 100, "chain_minors": 100,
              "chain_diplotype": 100, "empty_stage_error": 3, "majors_passed_on": 80},
    "thorough": {"reported_set": 2500, "ordered": 2500, "chain_structure": 3000, "chain_minors": 3000,
                 "chain_diplotype": 3000, "empty_stage_error": 20, "majors_passed_on": 2500},
}
CASE_TIMEOUT = {"quick": 900, "thorough": 3000}
PREC = 1e-2
SLACK = 1


def plan(tier, seed):
    n = 40 if tier == "quick" else 1000
    cases = [{"kind": "sample", "seed": seed, "batch": b, "n": 3} for b in range(n)]
    for k in range(20 if tier == "quick" else 80):
        cases.append({"kind": "empty", "seed": seed, "k": k})
    for k in range(12 if tier == "quick" else 200):
        cases.append({"kind": "synthetic", "seed": seed, "k": k, "n": 6})
    return cases


class StageRecorder:
    def __init__(self):
        import aldy.cn
        import aldy.major
        import aldy.minor

        self.cn, self.major, self.minor = aldy.cn, aldy.major, aldy.minor
        self.o_cn, self.o_major, self.o_minor = aldy.cn.estimate_cn, aldy.major.estimate_major, \
            aldy.minor.solve_minor_model
        self.cn_sols = []  # (key, score)
        self.major_calls = []  # (cn key, cn score, [(key, raw score)])
        self.minor_calls = []  # (major key, cn key, major score as passed, [(key, raw score, solution)])
        rec = self

        def w_cn(gene, profile, coverage, solver, debug=None):
            out = rec.o_cn(gene, profile, coverage, solver, debug)
            rec.cn_sols = [(cn_key(c), c.score) for c in out]
            return out

        def w_major(gene, coverage, cn_solution, solver, identifier=0, debug=None):
            out = rec.o_major(gene, coverage, cn_solution, solver, identifier, debug)
            rec.major_calls.append((cn_key(cn_solution), cn_solution.score,
                                    [(major_key(m), m.score) for m in out]))
            return out

        def w_minor(gene, coverage, major_sol, alleles_list, mutations, solver, max_solutions=1):
            out = rec.o_minor(gene, coverage, major_sol, alleles_list, mutations, solver, max_solutions)
            rec.minor_calls.append((major_key(major_sol), cn_key(major_sol.cn_solution), major_sol.score,
                                    [(minor_key(s), s.score) for s in out]))
            return out

        self.w = (w_cn, w_major, w_minor)

    def __enter__(self):
        self.cn.estimate_cn, self.major.estimate_major, self.minor.solve_minor_model = self.w
        return self

    def __exit__(self, *a):
        self.cn.estimate_cn, self.major.estimate_major, self.minor.solve_minor_model = \
            self.o_cn, self.o_major, self.o_minor


def cn_key(c):
    return tuple(sorted(c.solution.items()))


def major_key(m):
    return (cn_key(m.cn_solution),
            tuple(sorted((a.major, n) for a, n in m.solution.items())),
            tuple(sorted(map(tuple, m.added))))


def minor_key(s):
    return (major_key(s.major_solution),
            tuple(sorted((a.major, a.minor, tuple(sorted(map(tuple, a.added))), tuple(sorted(map(tuple, a.missing))))
                         for a in s.solution)))


def check_run(res, g, rec, result, err, gap, desc):
    from aldy.common import AldyException

    sols = list(result.values())[0] if result else []
    # ---- empty stages
    cn_scores = dict(rec.cn_sols)
    if not rec.cn_sols:
        res.check("empty_stage_error", isinstance(err, AldyException) and not sols,
                  "no structure solution but no error / a genotype was reported", error=repr(err), **desc)
        return None
    min_c = min(cn_scores.values())
    # every structure solution is a source of candidates: each must have been handed to the major stage
    asked = {ck for ck, cs, lst in rec.major_calls}
    res.check("structures_passed_on", asked == set(cn_scores),
              "a structure solution was not handed to the major-allele stage (its candidates are missing from the "
              "selection)", missing=sorted(map(str, set(cn_scores) - asked))[:3],
              recorded_structure_scores=sorted(cn_scores.values())[:5], **desc)
    majors = {}  # key -> adjusted score
    major_cn = {}
    for ck, cs, lst in rec.major_calls:
        for mk, ms in lst:
            adj = ms + cs - min_c
            if mk not in majors or adj < majors[mk]:
                majors[mk] = adj
            major_cn[mk] = cs
    if not majors:
        res.check("empty_stage_error", isinstance(err, AldyException) and not sols,
                  "no major solution but no error / a genotype was reported", error=repr(err), **desc)
        return None
    min_m = min(majors.values())
    surviving = {k for k, v in majors.items() if v - min_m - gap < PREC}
    passed = {mk for mk, ck, ms, lst in rec.minor_calls}
    edge = {k for k, v in majors.items() if abs(v - min_m - gap - PREC) < 1e-6}
    res.check("majors_passed_on", passed - edge == surviving - edge,
              "major solutions handed to the minor stage are not those within the gap of the best (structure "
              "score differences carried over)", missing=sorted(map(str, surviving - passed))[:3],
              surplus=sorted(map(str, passed - surviving))[:3], **desc)
    for mk, ck, ms, lst in rec.minor_calls:
        if mk in majors:
            res.check("major_score_carried", abs(ms - majors[mk]) < 1e-9,
                      "major solution's score at the minor stage is not its raw score plus the structure difference",
                      got=ms, expected=majors[mk], **desc)
    # candidates are kept as a multiset: the minor stage may return the same refinement twice when two
    # copies of one allele are interchangeable (only the copy carrying an added variant differs)
    cands = []
    for mk, ck, ms, lst in rec.minor_calls:
        if mk not in majors:
            continue
        cs = cn_scores.get(ck, major_cn.get(mk))
        for sk, raw in lst:
            comb = (raw + majors[mk] - min_m) * ((cs + SLACK) / (min_c + SLACK))
            cands.append((sk, comb))
    if not cands:
        res.check("empty_stage_error", isinstance(err, AldyException) and not sols,
                  "no refined solution but no error / a genotype was reported", error=repr(err), **desc)
        return None
    res.check("no_error_when_solutions_exist", err is None, "candidates exist but the run failed",
              error=repr(err), **desc)
    if err is not None:
        return None
    best = min(v for _, v in cands)
    expected = collections.Counter(k for k, v in cands if v - best - gap < PREC)
    edge = {k for k, v in cands if abs(v - best - gap - PREC) < 1e-6}
    got = collections.Counter(minor_key(s) for s in sols)
    for k in edge:
        expected.pop(k, None)
        got.pop(k, None)
    res.check("reported_set", got == expected,
              "reported solutions are not exactly the refined candidates within the gap of the best combined score",
              missing=[str(k[1]) for k in (expected - got)][:3],
              surplus=[str(k[1]) for k in (got - expected)][:3],
              n_candidates=len(cands), best=best, **desc)
    by_key = collections.defaultdict(list)
    for k, v in cands:
        by_key[k].append(v)
    for s in sols:
        k = minor_key(s)
        if k in by_key:
            res.check("reported_score", any(abs(s.score - v) < 1e-6 * max(1, abs(v)) for v in by_key[k]),
                      "reported score is not the combined score (minor + carried major difference, rescaled by the "
                      "structure score)", got=s.score, expected=by_key[k], solution=str(k[1]), **desc)
    scores = [int(1000 * s.score) for s in sols]
    res.check("ordered", scores == sorted(scores) and (not sols or abs(sols[0].score - best) < 1e-3),
              "reported solutions are not listed best first", scores=[s.score for s in sols], **desc)
    # ---- consistent chains
    for s in sols:
        cfg = collections.Counter(g.alleles[a.major].cn_config for a in s.solution)
        cn = s.major_solution.cn_solution
        dele = g.deletion_allele()
        want = collections.Counter({k: v for k, v in cn.solution.items()})
        res.check("chain_structure", cfg == want,
                  "alleles' structural configurations do not match the solution's gene structure copy for copy",
                  alleles=dict(cfg), structure=dict(want), **desc)
        mm = collections.Counter(a.major for a in s.solution)
        wm = collections.Counter()
        for a, n in s.major_solution.solution.items():
            wm[a.major] += n
        ok = mm == wm and all(a.minor in g.alleles[a.major].minors for a in s.solution)
        res.check("chain_minors", ok, "minor alleles do not refine the major alleles one to one",
                  minors=dict(mm), majors=dict(wm), **desc)
        flat = [i for h in s.diplotype for i in h if i != -1]
        res.check("chain_diplotype", sorted(flat) == list(range(len(s.solution))),
                  "diplotype does not list each allele once", diplotype=s.diplotype, **desc)
        res.check("chain_recorded", major_key(s.major_solution) in majors and cn_key(cn) in cn_scores,
                  "reported solution does not derive from recorded stage candidates", **desc)
    return len(cands), len({k[0] for k, _ in cands}), len(cn_scores)


def _sample_case(res, rng, ident):
    from aldy.common import AldyException

    db = _sim.gen_db(rng.randrange(30), rng.choice(["hg19", "hg38"]), want_cn=True)
    g = db.gene
    rl, depth = 100, 20
    copies = _sim.random_genotype(db, rng, n=rng.choice([2, 3, 3, 3]))
    haps = reads.haplotypes_for(g, copies)
    if len(haps) >= 3 and rng.random() < 0.8:
        haps[-1]["depth"] = rng.choice([8, 10, 12, 14, 16])  # an ambiguous fractional copy
    elif rng.random() < 0.5:
        # or a weak extra copy of the reference allele
        extra = reads.haplotypes_for(g, [copies[0], copies[-1], db.reference_copy()])[-1]
        extra["depth"] = rng.choice([8, 10, 12])
        haps.append(extra)
    rds = reads.simulate(g, haps, rl=rl, depth=depth, ref=db.ref, neutral=db.neutral, rng=rng,
                         error_rate=rng.choice([0, 0.002, 0.01]), jitter=True)
    bam = reads.write_bam(os.path.join(util.scratch_dir(), "s.bam"), g.chr, db.contig_len, rds)
    gap = rng.choice([0, 0.1, 0.1, 0.3, 0.3])
    mms = rng.choice([1, 2, 3])
    desc = {"db": db.label, "planted": [list(c[:2]) for c in copies], "ident": ident, "gap": gap,
            "max_minor_solutions": mms, "depths": [h.get("depth", depth) for h in haps]}
    phase = rng.random() < 0.5
    prof_bam = db.ref_bam(rl, depth)
    with StageRecorder() as rec:
        try:
            with util.time_limit(40):
                out = _sim.genotype(db, bam, prof_bam, None, gap=gap, max_minor_solutions=mms, phase=phase)
            err = None
        except AldyException as e:
            out, err = None, e
        except RecursionError:
            res.count("skipped_recursion")
            return None
        except util.Slow:
            res.count("skipped_slow_enumeration")
            return None
        except Exception as e:  # anything but AldyException is not "an error that says so"
            out, err = None, e
            res.check("error_is_explanatory", False, f"the run ended with {type(e).__name__}: {e}", **desc)
    r = check_run(res, g, rec, out, err, gap, desc)
    if r and r[0] >= 2 and r[1] >= 2:
        desc["candidates"] = r[0]
        desc["major_candidates"] = r[1]
        desc["structures"] = r[2]
        if r[2] >= 2:
            res.count("cases_with_competing_structures")
        return desc
    return None


def _synthetic_case(res, case, k):
    """The real genotype() driven with *given* stage results: the three stage functions are replaced by
    functions returning well-formed solution objects with drawn scores (many close scores, several
    structures / major solutions, several refinements each), so that the selection, rescaling and ordering
    code sees combinations that real samples produce rarely."""
    import random

    import aldy.cn
    import aldy.major
    import aldy.minor
    from aldy.common import AldyException
    from aldy.diplotype import estimate_diplotype
    from aldy.solutions import CNSolution, MajorSolution, MinorSolution, SolvedAllele

    rng = util.rng_for("c10s", case["seed"], case["k"], k)
    db = _sim.gen_db(rng.randrange(30), rng.choice(["hg19", "hg38"]), want_cn=True)
    g = db.gene
    rc = db.reference_copy()
    bam = db.sim([rc, rc], "syn.bam", 100, 20)[0]
    normal = sorted(a for a, al in g.alleles.items() if al.cn_config == "1")
    gap = rng.choice([0.1, 0.3, 0.5, 1.0])
    mms = rng.choice([1, 2, 3])
    salt = rng.getrandbits(32)
    spread = rng.choice([0.2, 0.6, 0.95, 2.5])  # how far apart the drawn scores lie
    base_minor = rng.choice([0.0, 0.05, 1.02, 3.4])
    structures = [["1", "1"]] + ([["1", "1", "1"]] if rng.random() < 0.5 else [])
    cn_scores = [round(rng.uniform(0, 1.5), 3)]
    for _ in structures[1:]:
        cn_scores.append(round(cn_scores[0] + rng.uniform(0, spread * 0.6), 3))

    def fake_cn(gene, profile, coverage, solver, debug=None):
        return [CNSolution(gene, sc, list(cfg)) for cfg, sc in zip(structures, cn_scores)]

    def fake_major(gene, coverage, cn_solution, solver, identifier=0, debug=None):
        r = random.Random(f"{salt}/M/{sorted(cn_solution.solution.items())}")
        n = sum(cn_solution.solution.values())
        combos, out = set(), []
        for _ in range(r.choice([1, 2, 3, 4])):
            combo = tuple(sorted(r.choice(normal) for _ in range(n)))
            if combo in combos:
                continue
            combos.add(combo)
            sc = round(r.uniform(0, spread), 4) if out else round(r.uniform(0, 0.3), 4)
            out.append(MajorSolution(sc, collections.Counter(SolvedAllele(gene, a) for a in combo), cn_solution, []))
        return out

    def fake_minor(gene, coverage, major_sol, alleles_list, mutations, solver, max_solutions=1):
        key = sorted((a.major, c) for a, c in major_sol.solution.items())
        r = random.Random(f"{salt}/m/{sorted(major_sol.cn_solution.solution.items())}/{key}")
        out, seen = [], set()
        for _ in range(r.randint(1, max(1, max_solutions))):
            sol = []
            for a, c in sorted(major_sol.solution.items(), key=lambda x: x[0].major):
                for _i in range(c):
                    sol.append(SolvedAllele(gene, a.major, r.choice(sorted(gene.alleles[a.major].minors))))
            sig = tuple(sorted((x.major, x.minor) for x in sol))
            if sig in seen:
                continue
            seen.add(sig)
            ms = MinorSolution(score=round(base_minor + r.uniform(0, spread), 4), solution=sol,
                               major_solution=major_sol, profile=coverage.profile)
            estimate_diplotype(gene, ms)
            out.append(ms)
        return out

    desc = {"db": db.label, "synthetic": True, "gap": gap, "max_minor_solutions": mms, "structures": structures,
            "structure_scores": cn_scores, "spread": spread, "minor_base": base_minor, "ident": [case["k"], k]}
    saved = (aldy.cn.estimate_cn, aldy.major.estimate_major, aldy.minor.solve_minor_model)
    aldy.cn.estimate_cn, aldy.major.estimate_major, aldy.minor.solve_minor_model = fake_cn, fake_major, fake_minor
    try:
        with StageRecorder() as rec:
            try:
                out = _sim.genotype(db, bam, db.ref_bam(100, 20), None, gap=gap, max_minor_solutions=mms)
                err = None
            except AldyException as e:
                out, err = None, e
            except Exception as e:
                out, err = None, e
                res.check("error_is_explanatory", False, f"the run ended with {type(e).__name__}: {e}", **desc)
    finally:
        aldy.cn.estimate_cn, aldy.major.estimate_major, aldy.minor.solve_minor_model = saved
    r = check_run(res, g, rec, out, err, gap, desc)
    res.count("synthetic_runs")
    return desc if r and r[0] >= 2 else None


def _empty_case(res, case):
    """Forced empty stages: a user structure for which no allele is a candidate / infeasible evidence."""
    from aldy.common import AldyException

    rng = util.rng_for("c10e", case["seed"], case["k"])
    db = _sim.gen_db(rng.randrange(30), rng.choice(["hg19", "hg38"]), want_cn=True, pseudogene=True)
    g = db.gene
    copies = _sim.random_genotype(db, rng, n=2, allow_structural=False)
    bam, rds = db.sim(copies, "e.bam", 100, 20)
    # a fusion / custom configuration whose alleles have unsupported core variants has no candidate
    cfgs = [c for c, v in g.cn_configs.items() if c != "1" and c != g.deletion_allele()
            and all(g.alleles[a].func_muts for a in v.alleles)]
    desc = {"db": db.label, "planted": [list(c[:2]) for c in copies]}
    if not cfgs:
        res.count("skipped_no_suitable_configuration")
        return
    user = [rng.choice(cfgs), "1"]
    desc["user_structure"] = user
    with StageRecorder() as rec:
        try:
            out = _sim.genotype(db, bam, None, None, cn_solution=user)
            err = None
        except AldyException as e:
            out, err = None, e
        except Exception as e:
            out, err = None, e
    nm = sum(len(l) for _, _, l in rec.major_calls)
    if nm == 0:
        res.check("empty_stage_error", isinstance(err, AldyException) and not out,
                  "no major solution for the user structure but no error / a genotype was reported",
                  error=repr(err), **desc)
        res.check("empty_stage_error", err is not None and "solution" in str(err).lower(),
                  "the error does not say that no solution was found", error=str(err), **desc)
    else:
        check_run(res, g, rec, out, err, 0, desc)


def run(case):
    util.import_aldy()
    res = Res()
    fps = []
    if case["kind"] == "sample":
        for k in range(case["n"]):
            rng = util.rng_for("c10", case["seed"], case["batch"], k)
            d = _sample_case(res, rng, [case["seed"], case["batch"], k])
            res.count("samples")
            if d:
                fps.append(util.fingerprint(d))
                if res.sample is None and case["batch"] < 4:
                    res.sample = d
    elif case["kind"] == "synthetic":
        for k in range(case["n"]):
            d = _synthetic_case(res, case, k)
            if d:
                fps.append(util.fingerprint(d))
    else:
        _empty_case(res, case)
        fps = [util.fingerprint(case)]
    res.fp = util.fingerprint(fps)
    res.nontrivial = bool(fps)
    res.counters["distinct_nontrivial_runs"] = len(set(fps))
    return res


def summarize(results):
    return {"distinct_nontrivial_runs": sum(r["counters"].get("distinct_nontrivial_runs", 0) for r in results)}
