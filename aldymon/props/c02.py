"""C02 - major star-allele calls are consistent, optimal and complete.

Monitor: wrapper at the solve_major_model boundary (captures the filtered evidence, the candidate
set and the result of the very call) + lpmon; oracle: ref/majorref.py (all allele multisets) and an
independent re-statement of the candidate filter.
"""
import collections

from .. import lpmon, util
from ..gen import tables
from ..ref import majorref
from ..util import Res
from . import _tables

ID = "C02"
RULE = (
    "opt cases: (database, build, structure, planted multiset of 1-4 catalogued alleles, noise, extra "
    "variants, gap) on the toy gene / generated databases / small shipped genes, every reported "
    "combination compared with enumeration of all admissible allele multisets; non-trivial = at "
    "least one non-reference allele planted or non-zero noise, and >= 2 admissible combinations; "
    "pairs cases: noise-free evidence of every (sampled) pair / multiset of catalogued major alleles "
    "of the shipped databases, both builds; distinct by (database, build, planted multiset, noise seed)"
)
ASSUMPTIONS = [
    "ref/majorref.py restates the documented objective over allele multisets",
    "scores compared at 1e-4; don't-care band 1e-4 at the gap boundary",
    "cases with more than 150 within-gap combinations or 2e5 multisets are skipped (counted)",
]
MIN = {
    "quick": {"config_counts": 300, "core_variant_once": 300, "score_equals_reference": 300,
              "none_lower": 150, "complete_within_gap": 150, "planted_reported_zero_error": 300,
              "candidate_filter": 150},
    "thorough": {"config_counts": 5000, "core_variant_once": 5000, "score_equals_reference": 5000,
                 "none_lower": 2000, "complete_within_gap": 2000, "planted_reported_zero_error": 8000,
                 "candidate_filter": 2000},
}
CASE_TIMEOUT = {"quick": 900, "thorough": 3000}
TOTAL_TIMEOUT = {"quick": 1800, "thorough": 7200}
TOL = 1e-4
OPT_GENES = ["toy", "toy", "toy", "gen", "gen", "gen", "cyp2c19", "tpmt", "nudt15", "cyp2a6", "ifnl3",
             "gstp1", "gstm1"]  # (the last two catalogue function-altering variants that no allele carries)
BIG = {"cyp2d6", "dpyd", "ryr1", "g6pd"}


def plan(tier, seed):
    util.import_aldy()
    cases = []
    nopt = 50 if tier == "quick" else 1200
    for b in range(nopt):
        cases.append({"kind": "opt", "seed": seed, "batch": b, "n": 8})
    # noise-free pairs over shipped databases
    names = tables.shipped_gene_names()
    for gname in names:
        for genome in ("hg19", "hg38"):
            if tier == "quick":
                cases.append({"kind": "pairs", "gene": gname, "genome": genome, "seed": seed,
                              "max_pairs": 14 if gname not in BIG else 6, "multi": 3})
            else:
                g = tables.gene(gname, genome)
                n = len([a for a in g.alleles.values() if a.cn_config == "1"])
                total = n * (n + 1) // 2
                cap = total if gname not in BIG else 600
                chunk = 250
                for off in range(0, cap, chunk):
                    cases.append({"kind": "pairs", "gene": gname, "genome": genome, "seed": seed,
                                  "offset": off, "max_pairs": chunk,
                                  "sample": gname in BIG, "multi": 6})
    for b in range(6 if tier == "quick" else 60):
        cases.append({"kind": "pairs", "gene": "gen", "genome": "hg19" if b % 2 else "hg38",
                      "seed": seed + b, "max_pairs": 20, "multi": 6})
    return cases


class Capture:
    """Wraps aldy.major.solve_major_model; records arguments and results of every call."""

    def __init__(self):
        import aldy.major

        self.calls = []
        self.mod = aldy.major
        self.orig = aldy.major.solve_major_model

        def wrap(gene, coverage, cn_solution, allele_dict, solver, identifier=0, debug=None):
            out = self.orig(gene, coverage, cn_solution, allele_dict, solver, identifier, debug)
            self.calls.append((gene, coverage, cn_solution, allele_dict, out))
            return out

        self.wrap = wrap

    def __enter__(self):
        self.mod.solve_major_model = self.wrap
        return self

    def __exit__(self, *a):
        self.mod.solve_major_model = self.orig


def reference_candidates(g, raw_cov, cn_solution):
    """Candidate alleles per the statement: structure in the solution and every core variant passes
    the read filters, recomputed from the raw observation table."""
    prof = raw_cov.profile
    hq = {}
    for pos, ops in raw_cov._coverage.items():
        hq[pos] = {op: [1 for mq, q in obs if q >= prof.min_quality and mq >= prof.min_mapq]
                   for op, obs in ops.items()}

    def count(m):
        return len(hq.get(m.pos, {}).get(m.op, []))

    def total(pos):
        return sum(len(v) for op, v in hq.get(pos, {}).items() if op[:3] != "ins")

    def passes(m):
        c = count(m)
        t = total(m.pos)
        if c < max(prof.min_coverage, t * prof.threshold / prof.cn_max):
            return False
        if c < max(prof.min_coverage, t * prof.threshold / (cn_solution.position_cn(m.pos) + 0.5)):
            return False
        return True

    out = set()
    for an, a in g.alleles.items():
        if a.cn_config not in cn_solution.solution:
            continue
        if all(passes(m) for m in a.func_muts):
            out.add(an)
    return out, passes, count


def silent_conflicts(g, copies, cov):
    """(copy, site) pairs where a planted copy shows a silent non-insertion variant at the site of a
    supported core variant it does not carry itself (the major model expects reference there)."""
    core_sites = {m.pos for a in g.alleles.values() for m in a.func_muts}  # insertion sites have a reference term too
    n = 0
    for c in copies:
        a, mi = c[0], c[1]
        core_here = {m.pos for m in g.alleles[a].func_muts if m.op[:3] != "ins"}
        for m in g.alleles[a].minors[mi].neutral_muts:
            if m.op[:3] != "ins" and m.pos in core_sites and m.pos not in core_here and \
                    any(fm.pos == m.pos and cov[fm] > 0 for b in g.alleles.values() for fm in b.func_muts):
                n += 1
    return n


def check_major_call(res, g, raw_cov, cn, call, desc, planted=None, noise_free=False, planted_copies=None):
    """All clauses of the property for one captured solve_major_model call."""
    from aldy.gene import Mutation

    gene, cov, cn_solution, allele_dict, sols = call
    gap = cov.profile.gap
    # candidate filter (raw table -> candidates)
    if raw_cov is not None and raw_cov._indels is None:
        exp_c, _, _ = reference_candidates(g, raw_cov, cn_solution)
        res.check("candidate_filter", set(allele_dict) == exp_c,
                  "candidate alleles differ from 'every core variant passes the read filters'",
                  surplus=sorted(set(allele_dict) - exp_c), missing=sorted(exp_c - set(allele_dict)), **desc)
    combos, func_muts = majorref.enumerate_major(g, cov, cn_solution, allele_dict)
    if combos is None:
        res.count("skipped_multiset_space")
        return False
    table = {(a, n): s for a, n, s in combos}
    best = min(table.values()) if table else None
    if best is not None:
        within = sum(1 for s in table.values() if s <= (1 + gap) * best + 1e-5)
        if within > 150:
            res.count("skipped_enumeration_size")
            return False
    seen = set()
    reported = {}
    for s in sols:
        alleles = tuple(sorted(a.major for a, c in s.solution.items() for _ in range(c)))
        novel = tuple(sorted(Mutation(*m) for m in s.added))
        key = (alleles, novel)
        res.check("reported_once", key not in seen, "combination reported twice", combination=alleles, **desc)
        seen.add(key)
        cnt = collections.Counter(g.alleles[a].cn_config for a in alleles)
        res.check("config_counts", dict(cnt) == dict(cn_solution.solution),
                  "alleles per configuration differ from the structure", combination=alleles,
                  structure=dict(cn_solution.solution), **desc)
        carried = set(m for a in alleles for m in g.alleles[a].func_muts)
        for m in func_muts:
            c, n = m in carried, m in novel
            res.check("core_variant_once", c != n,
                      "observed core variant is %s" % ("both carried and flagged novel" if c and n
                                                       else "neither carried nor flagged novel"),
                      variant=str(m), combination=alleles, added=[str(x) for x in novel], **desc)
        extra = [m for m in novel if m not in func_muts]
        res.check("novel_is_observed", not extra, "a variant without support is flagged as novel",
                  variants=[str(m) for m in extra], **desc)
        if key in table:
            res.check("score_equals_reference", abs(table[key] - s.score) <= TOL * max(1, abs(s.score)),
                      "reported score differs from fit error + novelty penalties of the combination",
                      combination=alleles, added=[str(x) for x in novel], reported=s.score,
                      reference=table[key], **desc)
            reported[key] = s.score
        else:
            res.check("admissible", False, "reported combination is not admissible",
                      combination=alleles, added=[str(x) for x in novel], **desc)
    if best is None:
        res.check("none_lower", not sols, "no admissible combination but something reported", **desc)
        return False
    res.check("nonempty", bool(sols), "admissible combinations exist but nothing reported", **desc)
    if not sols:
        return False
    rbest = min(s.score for s in sols)
    res.check("none_lower", rbest <= best + TOL * max(1, abs(best)),
              "an admissible combination scores lower than the best reported one",
              best_reported=rbest, reference=best,
              witness=[k for k, v in table.items() if v == best][:1], **desc)
    ub = (1 + gap) * best
    for key, sc in table.items():
        if sc < ub - TOL and key not in reported:
            res.check("complete_within_gap", False,
                      "admissible combination within the gap is not reported",
                      combination=key[0], added=[str(x) for x in key[1]], score=sc, bound=ub,
                      reported=len(reported), **desc)
            break
    else:
        res.check("complete_within_gap", True)
    for key, sc in reported.items():
        res.check("within_gap", sc <= ub + 1e-5 + TOL, "reported combination outside the gap",
                  combination=key[0], score=sc, bound=ub, **desc)
    if noise_free and planted is not None:
        pk = tuple(sorted(planted))
        hit = [sc for (a, n), sc in reported.items() if a == pk and not n]
        conflicts = silent_conflicts(g, planted_copies, cov) if planted_copies else 0
        ok0 = bool(hit) and abs(hit[0]) <= TOL
        res.check("planted_reported_zero_error", ok0,
                  "noise-free evidence: the planted combination is not reported with error zero",
                  mech="silent-variant-at-core-site" if (not ok0 and hit and conflicts
                                                         and abs(hit[0] - conflicts) <= TOL) else None,
                  planted=pk, reported=[[list(k[0]), v] for k, v in list(reported.items())[:4]], **desc)
    return len(table) >= 2


def _opt_case(res, rng, seed_desc):
    from aldy.major import estimate_major
    from aldy.profile import Profile
    from aldy.solutions import CNSolution

    gname = rng.choice(OPT_GENES)
    genome = rng.choice(["hg19", "hg38"])
    if gname == "gen":
        from ..gen import dbgen

        g = dbgen.random_gene(rng, genome=genome)
    else:
        g = tables.gene(gname, genome)
    gap = rng.choice([0, 0, 0.1, 0.5])
    ncop = rng.choice([1, 2, 2, 2, 3, 3, 4]) if gname in ("toy", "gen") else rng.choice([1, 2, 2, 3])
    copies = _tables.random_copies(g, rng, n=ncop)
    depth = rng.choice([8, 10, 20, 30])
    eps = rng.choice([0, 0.1, 0.2, 0.4])
    extra = {}
    fm = [m for m in g.mutations if g.is_functional(m)]
    if fm and rng.random() < 0.4:
        for m in rng.sample(fm, min(len(fm), rng.choice([1, 1, 2]))):
            extra[m] = rng.randint(1, depth)
    # catalogued function-altering variants that no allele carries (they can only ever be flagged as novel)
    owned = {(m.pos, m.op) for a in g.alleles.values() for m in a.func_muts}
    orphans = sorted(m for m in fm if tuple(m) not in owned)
    if orphans and rng.random() < 0.6:
        extra[rng.choice(orphans)] = rng.randint(max(1, depth // 2), depth)
    counts = tables.noisy(tables.planted_counts(g, copies, depth, extra_variants=extra), rng, eps)
    prof = Profile("test", gap=gap)
    if rng.random() < 0.15:
        prof.update({"major_novel": rng.choice([2.0, 5.0]), "threshold": rng.choice([0.3, 0.5, 0.8])})
    # evidence as the read loader delivers it: indel support in the realigner's own table (its depth need not
    # equal the pile-up depth) and observations below the quality thresholds mixed in
    indel_table = None
    if rng.random() < 0.35:
        counts, indel_table = tables.split_indel_table(g, counts, rng)
        if not indel_table:
            indel_table = None
    lowq = None
    if rng.random() < 0.35:
        lowq = {}
        for p_ in rng.sample(sorted(counts), min(len(counts), rng.randint(1, 6))):
            ops_ = ["_"] + [o for (pp, o) in g.mutations if pp == p_ and o[:3] != "ins"]
            o_ = rng.choice(ops_)
            lowq.setdefault(p_, {})[o_] = [rng.choice([(5, 40), (60, 3), (0, 0), (9, 60)])
                                            for _ in range(rng.choice([1, 3, 10, 40]))]
    cov = tables.make_coverage(g, counts, profile=prof, indels=indel_table, lowq=lowq)
    exact_table = indel_table is None or all(
        abs(sum(v) - sum(n for o, n in counts.get(k[0], {}).items() if o[:3] != "ins")) == 0
        for k, v in indel_table.items())
    cn = CNSolution(g, 0, tables.cn_list(g, copies))
    desc = {"gene": gname, "genome": genome, "copies": [list(c) for c in copies], "depth": depth,
            "eps": eps, "gap": gap, "indel_table": {f"{k[0]}:{k[1]}": v for k, v in (indel_table or {}).items()},
            "lowq_sites": len(lowq or {}), "extra_variants": {f"{p}:{o}": n for (p, o), n in extra.items()},
            "gen_seed": seed_desc}
    # the evidence object may have served another structure before (genotype() hands the same object to the stage
    # for every structure the copy-number stage returned)
    if rng.random() < 0.4:
        try:
            estimate_major(g, cov, CNSolution(g, 0, tables.cn_list(g, copies) + rng.choice([["1"], ["1", "1"]])), "any")
            desc["evidence_used_before_for_another_structure"] = True
        except Exception:
            pass
    lpmon.reset()
    with Capture() as cap:
        try:
            sols = estimate_major(g, cov, cn, "any")
        except RecursionError:
            res.count("skipped_recursion")
            return None
    for rec in lpmon.RECORDS:
        for p in rec.problems:
            res.check("lp_" + p.clause, False, p.what, **p.w)
    if not cap.calls:
        # a configuration of the structure has no candidate allele: nothing may be reported
        res.check("empty_when_no_candidate", sols == [], "no candidate for a configuration but solutions reported", **desc)
        return None
    nt = check_major_call(res, g, cov, cn, cap.calls[0], desc,
                          planted=[c[0] for c in copies], noise_free=(eps == 0 and not extra and exact_table),
                          planted_copies=copies)
    res.check("estimate_returns_model_result", sols is cap.calls[0][4] or sols == cap.calls[0][4],
              "estimate_major does not return the model's solutions")
    if nt and (eps > 0 or any(c[0] != "1" for c in copies)):
        return desc
    return None


def _pairs_case(res, case):
    import itertools

    from aldy.major import estimate_major
    from aldy.profile import Profile
    from aldy.solutions import CNSolution

    rng = util.rng_for("c02pairs", case["seed"], case["gene"], case["genome"], case.get("offset", 0))
    if case["gene"] == "gen":
        from ..gen import dbgen

        g = dbgen.random_gene(rng, genome=case["genome"])
    else:
        g = tables.gene(case["gene"], case["genome"])
    normal = sorted(a for a, al in g.alleles.items() if al.cn_config == "1")
    pairs = list(itertools.combinations_with_replacement(normal, 2))
    if case.get("sample") or "offset" not in case:
        rng.shuffle(pairs)
        pairs = pairs[: case["max_pairs"]]
    else:
        pairs = pairs[case["offset"]: case["offset"] + case["max_pairs"]]
    work = [list(p) for p in pairs]
    # sampled multisets of 1-4 alleles including fused / partial / deletion alleles
    dele = g.deletion_allele()
    others = sorted(a for a, al in g.alleles.items() if al.cn_config != "1" and a != dele
                    and tables.callable_allele(g, a))
    for _ in range(case.get("multi", 0)):
        n = rng.choice([1, 3, 3, 4]) if not others else rng.choice([1, 2, 3, 4])
        ms = []
        for i in range(n):
            if others and i < 2 and rng.random() < 0.5:
                ms.append(rng.choice(others))
            else:
                ms.append(rng.choice(normal))
        work.append(ms)
    fps = []
    prof = Profile("test")
    for ms in work:
        copies = [(a, next(iter(g.alleles[a].minors))) for a in ms]
        # variants of two planted alleles must be jointly representable (one non-insertion variant per site and copy)
        counts = tables.planted_counts(g, copies, 20)
        cov = tables.make_coverage(g, counts, profile=prof)
        cn = CNSolution(g, 0, tables.cn_list(g, copies))
        desc = {"gene": case["gene"], "genome": case["genome"], "planted": ms}
        with Capture() as cap:
            sols = estimate_major(g, cov, cn, "any")
        if not cap.calls:
            res.check("planted_reported_zero_error", False,
                      "noise-free evidence: no candidate allele for a configuration of the planted structure", **desc)
            continue
        conflicts = silent_conflicts(g, copies, cov)
        keyset = set()
        hit = False
        hit_with_conflict_error = False
        for s in sols:
            alleles = tuple(sorted(a.major for a, c in s.solution.items() for _ in range(c)))
            keyset.add(alleles)
            if alleles == tuple(sorted(ms)) and not s.added and abs(s.score) <= TOL:
                hit = True
            if alleles == tuple(sorted(ms)) and not s.added and conflicts and abs(s.score - conflicts) <= TOL:
                hit_with_conflict_error = True
        res.check("planted_reported_zero_error", hit,
                  "noise-free evidence: the planted combination is not reported with error zero",
                  mech="silent-variant-at-core-site" if (not hit and hit_with_conflict_error) else None,
                  reported=[list(k) for k in list(keyset)[:4]], scores=[s.score for s in sols][:4],
                  silent_variants_at_core_sites=conflicts, **desc)
        # the cheap structural clauses on every reported combination
        gene, fcov, cns, ad, out = cap.calls[0]
        from aldy.gene import Mutation

        fm = [Mutation(*m) for m in g.mutations if g.is_functional(m) and fcov[Mutation(*m)] > 0]
        for s in sols:
            alleles = [a.major for a, c in s.solution.items() for _ in range(c)]
            cnt = collections.Counter(g.alleles[a].cn_config for a in alleles)
            res.check("config_counts", dict(cnt) == dict(cn.solution),
                      "alleles per configuration differ from the structure", combination=alleles, **desc)
            carried = set(m for a in alleles for m in g.alleles[a].func_muts)
            novel = set(Mutation(*m) for m in s.added)
            bad = [str(m) for m in fm if (m in carried) == (m in novel)]
            res.check("core_variant_once", not bad, "observed core variant carried and novel, or neither",
                      variants=bad, combination=alleles, **desc)
            res.check("within_gap", s.score <= TOL or (conflicts and s.score <= conflicts + TOL),
                      "gap 0: a reported combination scores above the optimum 0", score=s.score, **desc)
        res.check("reported_once", len(keyset) == len(sols) or any(s.added for s in sols),
                  "combination reported twice", **desc)
        if len(set(ms)) > 1 or ms[0] != "1":
            fps.append(util.fingerprint(desc))
    if work and res.sample is None:
        res.sample = {"kind": "pairs", "gene": case["gene"], "genome": case["genome"],
                      "planted_examples": work[:3], "n": len(work)}
    return fps


def run(case):
    util.import_aldy()
    lpmon.install()
    res = Res()
    fps = []
    if case["kind"] == "opt":
        for k in range(case["n"]):
            rng = util.rng_for("c02", case["seed"], case["batch"], k)
            d = _opt_case(res, rng, [case["seed"], case["batch"], k])
            res.count("opt_cases")
            if d:
                fps.append(util.fingerprint(d))
                if res.sample is None and case["batch"] < 3:
                    res.sample = d
    else:
        fps = _pairs_case(res, case)
        res.count("pairs_cases", len(fps))
    res.fp = util.fingerprint(fps)
    res.nontrivial = bool(fps)
    res.counters["distinct_nontrivial_inputs"] = len(set(fps))
    return res


def summarize(results):
    return {"distinct_nontrivial_inputs": sum(r["counters"].get("distinct_nontrivial_inputs", 0) for r in results)}
