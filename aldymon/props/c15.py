"""C15 - calls are backed by high-quality reads; low-quality reads are ignored.

Metamorphic monitor: the same high-quality evidence with and without arbitrary observations below
either quality threshold is run through the real estimate_major / estimate_minor; results must be
identical.  In addition every called core / novel / carried variant is checked against the
qualifying support recomputed from the raw table.
"""
import collections

from .. import util
from ..gen import tables
from ..util import Res
from . import _tables

ID = "C15"
RULE = (
    "one case = (database: toy, generated, small shipped; planted multiset with noise; thresholds "
    "min_quality / min_mapq / min_coverage / threshold drawn from their documented ranges, usually "
    "different from each other; random observations failing exactly one or both quality thresholds "
    "added at reference and variant sites, including variants without any qualifying read); one "
    "evaluation = one metamorphic pair or one called variant; non-trivial = at least 5 sub-threshold "
    "observations at catalogued sites and a non-reference allele; distinct by the case description"
)
ASSUMPTIONS = [
    "qualifying read = base quality >= min_quality and mapping quality >= min_mapq",
    "fraction threshold as documented: support >= max(min_coverage, locus depth x threshold / (copies at the site + 0.5)) and >= locus depth x threshold / cn_max, on qualifying reads",
]
MIN = {
    "quick": {"lowq_ignored_major": 200, "lowq_ignored_minor": 150, "called_core_supported": 300,
              "carried_supported": 300, "unsupported_allele_not_called": 60, "lowq_reads_ignored": 15},
    "thorough": {"lowq_ignored_major": 6000, "lowq_ignored_minor": 5000, "called_core_supported": 10000,
                 "carried_supported": 10000, "unsupported_allele_not_called": 2000},
}
CASE_TIMEOUT = {"quick": 900, "thorough": 3000}
GENES = ["toy", "toy", "gen", "gen", "gen", "cyp2c19", "tpmt", "nudt15", "cyp2a6"]


def plan(tier, seed):
    n = 160 if tier == "quick" else 3000
    cases = [{"seed": seed, "batch": b, "n": 6} for b in range(n)]
    for k in range(24 if tier == "quick" else 500):
        cases.append({"kind": "reads", "seed": seed, "k": k})
    return cases


def _reads_case(res, case):
    """Read level: a simulated sample with and without additional reads below the quality thresholds
    (taken from a different genotype), genotyped with a user-supplied structure."""
    import os

    import aldy.sam
    from ..gen import reads
    from . import _sim

    rng = util.rng_for("c15r", case["seed"], case["k"])
    genome = rng.choice(["hg19", "hg38"])
    db = _sim.gen_db(rng.randrange(30), genome, want_cn=True)
    g = db.gene
    copies = _sim.random_genotype(db, rng, n=2, allow_structural=False)
    other = _sim.random_genotype(db, rng, n=2, allow_structural=False)
    minq, minmq = rng.choice([10, 20]), rng.choice([10, 20, 30])
    rds = reads.simulate(g, reads.haplotypes_for(g, copies), rl=100, depth=20, ref=db.ref, neutral=None, rng=rng)
    lq = reads.simulate(g, reads.haplotypes_for(g, other), rl=100, depth=rng.choice([4, 10]), ref=db.ref,
                        neutral=None, rng=rng, name_prefix="lq")
    for r in lq:
        if rng.random() < 0.5:
            r["qual"] = [rng.choice([q for q in (2, 5, 9, 15) if q < minq]) for _ in r["seq"]]
        else:
            r["mapq"] = rng.choice([m for m in (0, 3, 9, 15, 25) if m < minmq])
    d = util.scratch_dir()
    b1 = reads.write_bam(os.path.join(d, "q_a.bam"), g.chr, db.contig_len, rds)
    b2 = reads.write_bam(os.path.join(d, "q_b.bam"), g.chr, db.contig_len, rds + lq)
    cn = sorted(tables.cn_list(g, copies))
    desc = {"db": db.label, "copies": [list(c[:2]) for c in copies], "lowq_reads_from": [list(c[:2]) for c in other],
            "min_quality": minq, "min_mapq": minmq, "lowq_reads": len(lq)}
    samples = []
    orig_mc = aldy.sam.Sample._make_coverage

    def mc(self, norm, muts):
        samples.append(self)
        return orig_mc(self, norm, muts)

    def run(bam, phase):
        del samples[:]
        aldy.sam.Sample._make_coverage = mc
        try:
            with util.time_limit(60):
                out = _sim.genotype(db, bam, None, None, cn_solution=cn, phase=phase, min_quality=minq, min_mapq=minmq)
        finally:
            aldy.sam.Sample._make_coverage = orig_mc
        sols = list(out.values())[0]
        sig = sorted((tuple(sorted((a.major, a.minor, tuple(sorted(map(str, a.added))), tuple(sorted(map(str, a.missing))))
                                   for a in s.solution)), round(s.score, 6)) for s in sols)
        indel = {k: tuple(v) for k, v in samples[-1]._indel_sites.items()} if samples else {}
        return sig, indel

    try:
        phase = rng.random() < 0.5
        s1, i1 = run(b1, phase)
        s2, i2 = run(b2, phase)
        mech = None
        if s1 != s2:
            if i1 != i2:
                mech = "indel-support-counts-lowq-reads"  # the realigner's support table itself moved
            elif phase:
                t1, _ = run(b1, False)
                t2, _ = run(b2, False)
                if t1 == t2:
                    mech = "phase-records-ignore-quality"
        res.check("lowq_reads_ignored", s1 == s2,
                  "adding reads below a quality threshold changed the solutions or scores",
                  mech=mech, phase=phase, without=str(s1)[:300], with_lowq=str(s2)[:300],
                  indel_support_changed=[f"{k}: {i1.get(k)} -> {i2.get(k)}" for k in i2 if i1.get(k) != i2.get(k)][:4],
                  **desc)
    except util.Slow:
        res.count("skipped_slow")
        return None
    except Exception as e:
        res.count("reads_case_failed")
        return None
    return desc


def sig_major(sols):
    return sorted((tuple(sorted((a.major, n) for a, n in s.solution.items())),
                   tuple(sorted(map(tuple, s.added))), round(s.score, 9)) for s in sols)


def sig_minor(sols):
    return sorted((tuple(sorted((a.major, a.minor, tuple(sorted(map(tuple, a.added))),
                                 tuple(sorted(map(tuple, a.missing)))) for a in s.solution)),
                   round(s.score, 9)) for s in sols)


def _case(res, rng, ident):
    from aldy.coverage import Coverage
    from aldy.gene import Mutation
    from aldy.major import estimate_major
    from aldy.minor import estimate_minor
    from aldy.profile import Profile
    from aldy.solutions import CNSolution

    gname = rng.choice(GENES)
    genome = rng.choice(["hg19", "hg38"])
    if gname == "gen":
        from ..gen import dbgen

        g = dbgen.random_gene(rng, genome=genome)
    else:
        g = tables.gene(gname, genome)
    minq = rng.choice([10, 10, 20, 25, 30])
    minmq = rng.choice([0, 10, 10, 20, 30, 40])
    mincov = rng.choice([2.0, 2.0, 3.0, 5.0])
    thr = rng.choice([0.5, 0.5, 0.3, 0.8])
    prof = Profile("test", min_quality=minq, min_mapq=minmq, min_coverage=mincov, threshold=thr)
    copies = _tables.random_copies(g, rng, n=rng.choice([1, 2, 2, 3]))
    depth = rng.choice([10, 20, 30])
    # weak qualifying support (a tenth to half of one copy's depth) for catalogued variants nobody carries: the
    # fraction threshold, which depends on the copies present at that very site, decides
    weak = {}
    if rng.random() < 0.4:
        carried0 = set()
        for c in copies:
            carried0 |= tables.allele_variants(g, *c)
        spare0 = sorted(Mutation(*m) for m in g.mutations if Mutation(*m) not in carried0)
        picks0 = rng.sample(spare0, min(len(spare0), rng.choice([1, 2, 3])))
        # preferably also a second alternative at a site where a planted copy carries another variant
        mates0 = [m for m in spare0 if any(o.pos == m.pos and o.op[:3] != "ins" for o in carried0) and m.op[:3] != "ins"]
        if mates0 and rng.random() < 0.7:
            picks0.append(rng.choice(mates0))
        for m in picks0:
            ncov = sum(1 for c in copies if g.has_coverage(c[0], m.pos))
            k = int(round(depth * max(1, ncov) * rng.uniform(0.08, 0.48)))
            if k:
                weak[(m.pos, m.op)] = k
    counts = tables.noisy(tables.planted_counts(g, copies, depth, extra_variants=weak), rng, rng.choice([0, 0.1, 0.3]))
    # a structure naming the whole-gene deletion explicitly (one copy fewer at every site than the structure has
    # configurations)
    dele = g.deletion_allele()
    explicit_del = bool(dele) and dele in g.alleles and bool(g.alleles[dele].minors) and rng.random() < 0.15
    hq_q = [q for q in (10, 15, 25, 35, 40, 60) if q >= minq] or [60]
    hq_m = [m for m in (0, 10, 20, 30, 40, 60) if m >= minmq] or [60]
    base = collections.defaultdict(dict)
    for p, ops in counts.items():
        for op, n in ops.items():
            base[p][op] = [(rng.choice(hq_m), rng.choice(hq_q)) for _ in range(n)]
    # thin sites: catalogue sites with fewer qualifying reference reads than min_coverage (poorly covered
    # loci) - low-quality reference reads piled on them must still count for nothing
    thin = []
    if rng.random() < 0.5:
        ref_only = [p for p in sorted(base) if set(base[p]) == {"_"}]
        for p in rng.sample(ref_only, min(len(ref_only), rng.choice([1, 2, 4]))):
            keep = rng.choice([0, 0, 1, max(0, int(mincov) - 1)])
            if keep:
                base[p]["_"] = base[p]["_"][:keep]
            else:
                del base[p]
            thin.append(p)
    # a realigner-style table for the catalogued indels (supporting / non-supporting reads, total unrelated to
    # the pile-up depth), plus weak spurious support for indels nobody carries
    indel_table = None
    if rng.random() < 0.35:
        plain = {p: {op: len(v) for op, v in ops.items()} for p, ops in base.items()}
        plain, indel_table = tables.split_indel_table(g, plain, rng, scale_choices=(1.0, 0.5, 2.0, 4.0))
        for p in list(base):
            for op in list(base[p]):
                if op not in plain.get(p, {}):
                    del base[p][op]
        for (p, op) in sorted(indel_table):
            if indel_table[p, op][1] == 0 and rng.random() < 0.5:
                tot = max(4, sum(indel_table[p, op]))
                y = max(int(mincov), int(tot * rng.choice([0.04, 0.08, 0.15, 0.3])))
                indel_table[p, op] = [max(0, tot - y), y]
            if rng.random() < 0.4 and p in base:  # sparse pile-up under a deep table
                for op2 in base[p]:
                    base[p][op2] = base[p][op2][: max(1, len(base[p][op2]) // rng.choice([3, 6]))]
        if not indel_table:
            indel_table = None
    # an allele whose one core variant is only seen in sub-threshold reads (must never be called)
    lowq_only = None
    fm = sorted(Mutation(*m) for m in g.mutations if g.is_functional(m))
    carried = set()
    for c in copies:
        carried |= tables.allele_variants(g, *c)
    spare = [m for m in fm if m not in carried and not any(o.pos == m.pos for o in carried)
             and not (indel_table and (m.pos, m.op) in indel_table) and (m.pos, m.op) not in weak]
    lq_m = [m for m in (0, 1, 5, 9, 19, 29, 39) if m < minmq]
    lq_q = [q for q in (0, 1, 6, 9, 15, 25) if q < minq]

    def lowq_pair():
        r = rng.random()
        if lq_m and (r < 0.4 or not lq_q):
            return (rng.choice(lq_m), rng.choice(hq_q))  # fails the mapping quality only
        if lq_q and (r < 0.8 or not lq_m):
            return (rng.choice(hq_m), rng.choice(lq_q))  # fails the base quality only
        return (rng.choice(lq_m), rng.choice(lq_q))

    if not lq_m and not lq_q:
        return None
    extra = collections.defaultdict(dict)
    n_lq = 0
    sites = sorted(base) or sorted({p for p, _ in g.mutations})
    for p in thin:
        extra[p]["_"] = [lowq_pair() for _ in range(rng.choice([3, 10, 40]))]
        n_lq += len(extra[p]["_"])
    for _ in range(rng.randint(5, 40)):
        p = rng.choice(sites)
        ops = ["_"] + [o for (pp, o) in g.mutations if pp == p]
        op = rng.choice(ops)
        k = rng.choice([1, 2, 5, 20, 60, 60, 700, 2500])  # up to a hundred times the qualifying depth
        extra[p].setdefault(op, [])
        extra[p][op] += [lowq_pair() for _ in range(k)]
        n_lq += k
    if spare and rng.random() < 0.7:
        lowq_only = rng.choice(spare)
        extra[lowq_only.pos].setdefault(lowq_only.op, [])
        extra[lowq_only.pos][lowq_only.op] += [lowq_pair() for _ in range(rng.choice([5, 20, 40]))]
    cn = CNSolution(g, 0, tables.cn_list(g, copies) + ([g.alleles[dele].cn_config] if explicit_del else []))

    def cov_of(with_extra):
        d = {p: {op: list(v) for op, v in ops.items()} for p, ops in base.items()}
        if with_extra:
            for p, ops in extra.items():
                for op, v in ops.items():
                    d.setdefault(p, {}).setdefault(op, [])
                    d[p][op] = d[p][op] + list(v)
            for p in d:  # order of observations must not matter either
                for op in d[p]:
                    rng.shuffle(d[p][op])
        return Coverage(g, prof, None, d, dict(indel_table) if indel_table else None, {})

    desc = {"gene": gname, "thin_sites": len(thin), "explicit_deletion": explicit_del,
            "weak_support": [f"{p_}.{o_}:{k_}" for (p_, o_), k_ in sorted(weak.items())], "indel_table": sorted(map(str, indel_table)) if indel_table else None, "genome": genome, "ident": ident, "copies": [list(c) for c in copies],
            "min_quality": minq, "min_mapq": minmq, "min_coverage": mincov, "threshold": thr,
            "lowq_observations": n_lq, "lowq_only_variant": str(lowq_only) if lowq_only else None}
    ca, cb = cov_of(False), cov_of(True)
    # the evidence object may have served another gene structure first (as genotype() does for every structure
    # the copy-number stage returns): the thresholds of this call are this structure's all the same
    if rng.random() < 0.5:
        other_cfgs = tables.cn_list(g, copies) + rng.choice([["1"], ["1", "1"]])
        if rng.random() < 0.5 and len(other_cfgs) > 2:
            other_cfgs = other_cfgs[:1]
        try:
            other_cn = CNSolution(g, 0, other_cfgs)
            estimate_major(g, cb, other_cn, "any")
            desc["evidence_used_before_for"] = other_cfgs
        except Exception:
            pass
    try:
        ma = estimate_major(g, ca, cn, "any")
        mb = estimate_major(g, cb, cn, "any")
    except RecursionError:
        res.count("skipped_recursion")
        return None
    res.check("lowq_ignored_major", sig_major(ma) == sig_major(mb),
              "adding observations below a quality threshold changed the major solutions or scores",
              without=sig_major(ma)[:3], with_lowq=sig_major(mb)[:3], **desc)
    # qualifying support recomputed from the raw table (with the low-quality observations in it)
    hq = {}
    for p, ops in cb._coverage.items():
        hq[p] = {op: sum(1 for mq, q in v if q >= minq and mq >= minmq) for op, v in ops.items()}

    def total(p):
        return sum(n for op, n in hq.get(p, {}).items() if op[:3] != "ins")

    def qualifies(m):
        c = hq.get(m.pos, {}).get(m.op, 0)
        t = total(m.pos)
        if indel_table and (m.pos, m.op) in indel_table:
            # the realigner's table is the evidence for this variant: supporting reads out of its own total
            c = indel_table[m.pos, m.op][1]
            t = sum(indel_table[m.pos, m.op])
        return c >= max(mincov, t * thr / prof.cn_max) and c >= max(mincov, t * thr / (cn.position_cn(m.pos) + 0.5))

    for s in mb:
        for a, n in s.solution.items():
            for m in g.alleles[a.major].func_muts:
                res.check("called_core_supported", qualifies(m),
                          "core variant of a called allele lacks qualifying support",
                          allele=a.major, variant=str(m), qualifying=hq.get(m.pos, {}).get(m.op, 0),
                          locus=total(m.pos), **desc)
            if lowq_only is not None:
                res.check("unsupported_allele_not_called", lowq_only not in g.alleles[a.major].func_muts,
                          "an allele with a core variant without qualifying support was called",
                          allele=a.major, **desc)
        for m in s.added:
            m = Mutation(*m)
            res.check("called_core_supported", qualifies(m), "novel variant lacks qualifying support",
                      variant=str(m), **desc)
            if lowq_only is not None:
                res.check("unsupported_allele_not_called", m != lowq_only,
                          "a variant without qualifying support was flagged as novel", **desc)
    if ma and mb and len(ma) <= 4:
        try:
            na = estimate_minor(g, ca, ma, "any")
            nb = estimate_minor(g, cb, mb, "any")
        except RecursionError:
            res.count("skipped_recursion")
            return None
        res.check("lowq_ignored_minor", sig_minor(na) == sig_minor(nb),
                  "adding observations below a quality threshold changed the minor solutions or scores",
                  without=sig_minor(na)[:2], with_lowq=sig_minor(nb)[:2], **desc)
        same_cn = len({tuple(sorted(m.cn_solution.solution.items())) for m in mb}) == 1
        for s in nb:
            for a in s.solution:
                for m in (tables.allele_variants(g, a.major, a.minor) | set(a.added)) - set(a.missing):
                    if same_cn:
                        res.check("carried_supported", qualifies(m),
                                  "variant a refined allele carries lacks qualifying support",
                                  allele=a.minor, variant=str(m), qualifying=hq.get(m.pos, {}).get(m.op, 0),
                                  locus=total(m.pos), **desc)
    if n_lq >= 5 and any(tables.allele_variants(g, *c) for c in copies):
        return desc
    return None


def run(case):
    util.import_aldy()
    res = Res()
    fps = []
    if case.get("kind") == "reads":
        d = _reads_case(res, case)
        res.fp = util.fingerprint([case, d])
        res.nontrivial = d is not None
        if d and case["k"] < 2:
            res.sample = d
        return res
    for k in range(case["n"]):
        rng = util.rng_for("c15", case["seed"], case["batch"], k)
        d = _case(res, rng, [case["seed"], case["batch"], k])
        res.count("pairs")
        if d:
            fps.append(util.fingerprint(d))
            if res.sample is None and case["batch"] < 3:
                res.sample = d
    res.fp = util.fingerprint(fps)
    res.nontrivial = bool(fps)
    res.counters["distinct_nontrivial_pairs"] = len(set(fps))
    return res


def summarize(results):
    return {"distinct_nontrivial_pairs": sum(r["counters"].get("distinct_nontrivial_pairs", 0) for r in results)}
