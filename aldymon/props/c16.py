"""C16 - VCF genotypes are turned into matching evidence for every variant kind.

Monitor: after Sample(gene, profile, vcf) the support of every catalogued variant and the reference
support at its site are compared with what the written genotypes say (0 / 1 / 2 alternate copies);
end to end, genotype() on a VCF carrying a catalogued allele must report reference/allele.
"""
import collections
import os

from .. import util
from ..gen import tables, vcfgen
from ..util import Res
from . import _sim

ID = "C16"
RULE = (
    "one case = (database: generated or small shipped gene; build; a catalogued allele written as "
    "standard left-anchored records - SNP, deletion, insertion, multi-nucleotide as one record or "
    "as adjacent records; genotype 0/1, 1/1, 1/2, phased; REF-differs-from-RefSeq records; unrelated "
    "complex / MNP records, missing, haploid and triploid genotypes mixed in; multi-sample files and "
    "sample index); one evaluation per catalogued variant; non-trivial = the allele has a variant; "
    "distinct by (database, allele, genotype, record style)"
)
ASSUMPTIONS = [
    "one alternate copy = 10 observations, reference = 20 observations per site (the documented pseudo-read bookkeeping)",
    "reference support is compared at the first base of substitutions and deletions",
]
MIN = {
    "quick": {"variant_support": 500, "reference_support": 400, "no_record_is_reference": 2000,
              "ref_differs_reexpressed": 40, "odd_records_ignored": 60, "heterozygous_called": 40},
    "thorough": {"variant_support": 12000, "reference_support": 10000, "no_record_is_reference": 50000,
                 "ref_differs_reexpressed": 1000, "odd_records_ignored": 1500, "heterozygous_called": 1000},
}
CASE_TIMEOUT = {"quick": 900, "thorough": 3000}
SHIPPED = ["cyp2c19", "cyp2c9", "tpmt", "nudt15", "slco1b1", "cyp3a5", "vkorc1", "dpyd"]


def plan(tier, seed):
    n = 256 if tier == "quick" else 6000
    return [{"seed": seed, "k": k} for k in range(n)]


def kind_of(op):
    if ">" in op:
        return "snp" if len(op) == 3 else "mnp"
    if op.startswith("ins"):
        return "ins"
    if "ins" in op[3:]:
        return "delins"
    return "del"


def run(case):
    util.import_aldy()
    from aldy.gene import Mutation
    from aldy.profile import Profile
    from aldy.sam import Sample

    res = Res()
    rng = util.rng_for("c16", case["seed"], case["k"])
    genome = rng.choice(["hg19", "hg38"])
    if rng.random() < 0.3:
        db = _sim.shipped_db(rng.choice(SHIPPED), genome)
    else:
        db = _sim.gen_db(rng.randrange(30), genome, want_cn=False, hostile=0.5,
                         kinds=["snp", "snp", "snp", "del", "ins", "mnp", "mnpdot"])
    g = db.gene
    ref = db.ref
    allm = sorted(Mutation(*m) for m in g.mutations)
    cands = [c for c in tables.all_copies(g) if g.alleles[c[0]].cn_config == "1"
             and tables.allele_variants(g, *c) and all(kind_of(m.op) != "delins" for m in tables.allele_variants(g, *c))]
    if not cands:
        res.fp, res.nontrivial = util.fingerprint(case), False
        res.count("skipped_no_allele")
        return res
    target = rng.choice(cands)
    tv = sorted(tables.allele_variants(g, *target))
    gt = rng.choice(["0/1", "0/1", "1/0", "0|1", "1|0", "1/1", "1|1"])
    mnp_style = rng.choice(["one", "adjacent"])
    nsamp = rng.choice([1, 1, 2, 3])
    sidx = rng.randrange(nsamp)
    samples = [f"S{i}" for i in range(nsamp)]
    copies = collections.Counter()  # expected alternate copies per catalogued variant in sample sidx
    records = []
    used_pos = set()

    def other_gt():
        return rng.choice(["0/0", "0/1", "1/1", "./.", "0", "1", "0/1/1", ".", "0|0"])

    def add(pos1, r, alts, mine):
        gts = [mine if i == sidx else other_gt() for i in range(nsamp)]
        records.append((pos1, r, alts, gts))

    ncopies = 2 if gt in ("1/1", "1|1") else 1
    refdiff_del = []
    for m in tv:
        for (pos1, r, alts) in vcfgen.records_for(g, ref, m, mnp_style):
            if kind_of(m.op) == "del" and len(r) >= 2 and rng.random() < 0.35:
                # the VCF's assembly differs from the RefSeq inside the deleted stretch: same deletion, other bases
                k = rng.randrange(1, len(r))
                r = r[:k] + {"A": "C", "C": "G", "G": "T", "T": "A", "N": "A"}[r[k]] + r[k + 1:]
                refdiff_del.append(m)
            add(pos1, r, alts, gt)
            used_pos.add(pos1)
        copies[m] += ncopies
    adjacent_parts = {}
    if mnp_style == "adjacent":
        for m in tv:
            if kind_of(m.op) == "mnp":
                l, r_ = m.op.split(">")
                for k in range(len(l)):
                    if l[k] != ".":
                        adjacent_parts[Mutation(m.pos + k, f"{l[k]}>{r_[k]}")] = m
    # a second catalogued variant at a site of the target (tri-allelic 1/2)
    tri = None
    if rng.random() < 0.5:
        for m in tv:
            if kind_of(m.op) == "snp":
                alts = [o for o in allm if o.pos == m.pos and kind_of(o.op) == "snp" and o != m]
                if alts and gt in ("0/1", "0|1"):
                    tri = (m, alts[0])
                    break
    if tri:
        m, o = tri
        records[:] = [r for r in records if not (r[0] == m.pos + 1 and len(r[1]) == 1 and len(r[2][0]) == 1)]
        add(m.pos + 1, ref.base(m.pos), [m.op[2], o.op[2]], rng.choice(["1/2", "2/1", "1|2"]))
        copies[m] = 1
        copies[o] = 1
    # REF differs from the RefSeq-derived reference at a catalogued SNP outside the target
    others = [o for o in allm if kind_of(o.op) == "snp" and (o.pos + 1) not in used_pos
              and all(abs(o.pos - t.pos) > 6 for t in tv)]
    refdiff = None
    if others and rng.random() < 0.6:
        o = rng.choice(others)
        g2 = rng.choice(["0/0", "0/1", "1/1", "0|1"])
        add(o.pos + 1, o.op[2], [o.op[0]], g2)  # VCF's REF is the variant base, ALT is the RefSeq base
        used_pos.add(o.pos + 1)
        copies[o] = {"0/0": 2, "0/1": 1, "0|1": 1, "1/1": 0}[g2]
        refdiff = (o, g2)
    # unrelated records of other shapes / odd genotypes, away from catalogue sites
    lo, hi = min(g.chr_to_ref), max(g.chr_to_ref)
    cat_pos = {m.pos for m in allm}
    odd = 0
    for _ in range(rng.choice([0, 2, 4])):
        p = rng.randint(lo + 10, hi - 10)
        if any(abs(p - c) <= 8 for c in cat_pos) or (p + 1) in used_pos or "N" in g[p - 1: p + 4]:
            continue
        shape = rng.choice(["mnp", "complex", "haploid_snp", "missing_snp", "triploid"])
        rb = ref.slice(p, p + 3)
        if shape == "mnp":
            add(p + 1, rb[:2], ["".join({"A": "C", "C": "A", "G": "T", "T": "G"}[b] for b in rb[:2])],
                rng.choice(["0/1", "1/1"]))
        elif shape == "complex":
            add(p + 1, rb, [rb[0] + "T" if rb[1] != "T" else rb[0] + "G"], "0/1")
        else:
            alt = "A" if rb[0] != "A" else "C"
            add(p + 1, rb[0], [alt], {"haploid_snp": "1", "missing_snp": "./.", "triploid": "0/1/1"}[shape])
        used_pos.add(p + 1)
        odd += 1
    # catalogued variants present only with odd genotypes -> must count as reference
    ignored = []
    for o in rng.sample(others, min(2, len(others))):
        if (o.pos + 1) in used_pos:
            continue
        add(o.pos + 1, ref.base(o.pos), [o.op[2]], rng.choice(["./.", "1", "0/1/1", "./1"]))
        used_pos.add(o.pos + 1)
        ignored.append(o)
    # an uncatalogued multi-nucleotide / complex record of equal REF and ALT length that *starts* on a catalogued
    # SNP site with that SNP's alternate base: another shape, hence no support for the SNP
    cat_mnp_starts = {m.pos for m in allm if kind_of(m.op) in ("mnp", "delins")}
    for o in others:
        if rng.random() < 0.5 and (o.pos + 1) not in used_pos and (o.pos + 2) not in used_pos \
                and o.pos not in cat_mnp_starts and not any(m.pos in (o.pos + 1, o.pos + 2) for m in allm):
            n = rng.choice([2, 3])
            rb = ref.slice(o.pos, o.pos + n)
            if "N" in rb or len(rb) < n or rb[0] != o.op[0]:
                continue
            flip = {"A": "C", "C": "A", "G": "T", "T": "G"}
            alt = o.op[2] + "".join(flip[b] for b in rb[1:])
            add(o.pos + 1, rb, [alt], rng.choice(["0/1", "1/1", "0|1"]))
            used_pos.add(o.pos + 1)
            ignored.append(o)
            odd += 1
            break
    scratch = util.scratch_dir()
    vcf = vcfgen.write_vcf(os.path.join(scratch, "in.vcf"), g.chr, db.contig_len, records, samples)
    desc = {"db": db.label, "allele": list(target), "gt": gt, "mnp_style": mnp_style, "samples": nsamp,
            "sample_index": sidx, "variants": [str(m) for m in tv]}
    prof = Profile("user_provided", cn_solution=["1", "1"], vcf_sample_idx=sidx)
    try:
        sample = Sample(g, prof, vcf)
    except Exception as e:
        has_other_shape = any(len(r[1]) > 1 and len(r[2][0]) > 1 for r in records)
        res.check("odd_records_ignored", False,
                  f"loading the VCF failed: {e!r}",
                  mech="vcf-other-shape-crash" if isinstance(e, (TypeError, AttributeError)) and has_other_shape
                  else None, **desc)
        res.fp, res.nontrivial = util.fingerprint(desc), True
        return res
    cov = sample.coverage
    res.check("sample_name", sample.name == samples[sidx], "sample name is not the selected VCF sample",
              got=sample.name, **desc)
    ins_pos = {m.pos for m in allm if kind_of(m.op) == "ins"}
    for m in allm:
        k = copies.get(m, 0)
        got = cov.coverage(m)
        kd = kind_of(m.op)
        mech = None
        if got != 10 * k:
            if kd == "ins" and k > 0 and got == 0:
                mech = "vcf-insertion-no-support"
            elif kd == "mnp" and k > 0 and got == 0:
                mech = "vcf-mnp-no-support"
            elif m in adjacent_parts and got == 10 * copies.get(adjacent_parts[m], 0):
                mech = "vcf-mnp-no-support"  # the parts of an unmerged adjacent-record MNP keep the support
        if k or got:
            res.check("variant_support", got == 10 * k,
                      "support of a catalogued variant is not proportional to its alternate copies",
                      mech=mech, variant=str(m), kind=kd, copies=k, support=got, **desc)
        else:
            res.check("no_record_is_reference", got == 0, "variant without record has support", variant=str(m), **desc)
    by_pos = collections.defaultdict(int)
    for m, k in copies.items():
        if kind_of(m.op) in ("snp", "del", "mnp"):
            by_pos[m.pos] += k
    part_pos = {p.pos for p in adjacent_parts}
    for pos in sorted({m.pos for m in allm}):
        if pos in ins_pos:
            continue
        exp = 20 - 10 * by_pos.get(pos, 0)
        got = cov.coverage(Mutation(pos, "_"))
        mech = None
        if got != exp and (pos in part_pos or any(kind_of(m.op) == "mnp" and m.pos <= pos < m.pos + 4 and copies.get(m)
                                                   for m in allm)):
            mech = "vcf-mnp-no-support"
        if got != exp and any(kind_of(m.op) == "ins" and m.pos == pos - 1 and copies.get(m) for m in allm):
            mech = "vcf-insertion-no-support"  # the insertion is booked one position to the right
        clause = "reference_support" if by_pos.get(pos) else "no_record_is_reference"
        res.check(clause, got == exp,
                  "reference support at a catalogued site does not match the genotypes",
                  mech=mech, position=pos, got=got, expected=exp, **desc)
    if refdiff:
        o, g2 = refdiff
        k = copies[o]
        res.check("ref_differs_reexpressed", cov.coverage(o) == 10 * k and cov.coverage(Mutation(o.pos, "_")) == 20 - 10 * k,
                  "record whose REF differs from the RefSeq-derived reference is not re-expressed against it",
                  variant=str(o), record_gt=g2, support=cov.coverage(o), reference=cov.coverage(Mutation(o.pos, "_")), **desc)
    for o in refdiff_del:
        k = copies[o]
        res.check("ref_differs_reexpressed", cov.coverage(o) == 10 * k,
                  "deletion record whose REF bases differ from the RefSeq-derived reference is not re-expressed "
                  "against it", variant=str(o), record_gt=gt, support=cov.coverage(o), **desc)
    for o in ignored:
        res.check("odd_records_ignored", cov.coverage(o) == 0 and cov.coverage(Mutation(o.pos, "_")) == 20,
                  "non-diploid / missing genotype changed the evidence", variant=str(o), **desc)
    res.check("odd_records_ignored", True)
    # ---- end to end
    if gt in ("0/1", "1/0", "0|1", "1|0", "1/1", "1|1") and not tri and not refdiff:
        from aldy.genotype import genotype

        rc = db.reference_copy()
        # a structure given on the command line has no meaning for VCF input: it stays two copies
        user_cn = rng.choice([None, None, None, ["1"], ["1", "1", "1"]])
        desc["user_structure"] = user_cn
        try:
            with util.time_limit(60):
                out = genotype(db.path, vcf, None, None, genome=genome, vcf_sample_idx=sidx, cn_solution=user_cn)
            sols = list(out.values())[0]
            err = None
        except util.Slow:
            sols, err = None, None
            res.count("skipped_slow")
        except Exception as e:
            sols, err = [], e
        if sols is not None:
            want = collections.Counter([target[0], target[0]] if ncopies == 2 else [target[0], rc[0]])
            got = [collections.Counter(a.major for a in s.solution) for s in sols]
            kinds = {kind_of(m.op) for m in tv}
            mech = None
            if want not in got:
                if "ins" in kinds:
                    mech = "vcf-insertion-no-support"
                elif "mnp" in kinds:
                    mech = "vcf-mnp-no-support"
            res.check("heterozygous_called", want in got,
                      "a VCF carrying a catalogued allele is not genotyped as reference/that allele",
                      mech=mech, expected=dict(want), reported=[dict(x) for x in got][:3], error=repr(err), **desc)
    res.fp = util.fingerprint(desc)
    res.nontrivial = True
    if case["k"] < 3:
        res.sample = dict(desc, records=[[r[0], r[1], r[2], r[3]] for r in records][:8])
    return res
