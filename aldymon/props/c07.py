"""C07 - copy-number signal is depth-normalised: a two-copy reference reads as 2.0.

Metamorphic monitor over real BAM files: the sample itself, the sample with every read duplicated k
times, the sample with only the gene/pseudogene reads multiplied, and the profile sample against
its own profile; region depths are read from Coverage.region_coverage after Sample construction and
the structure calls from estimate_cn.
"""
import collections
import os

from .. import util
from ..gen import reads, tables
from ..util import Res
from . import _sim

ID = "C07"
RULE = (
    "one case = a simulated sample (generated gene with/without pseudogene, either strand, random "
    "genotype, read length, depth, reads with deletions inside the neutral region, custom neutral "
    "sub-region) x k in 2..5; relations: k-fold duplication invariance, linear scaling of gene reads, "
    "self-profile = 2.0, same structure call, empty neutral region rejected; profile from the BAM or "
    "from the YAML printed by `aldy profile` (shipped gene); non-trivial = sample with >= 2 regions "
    "of non-zero depth; distinct by (database, genotype, k, neutral region)"
)
ASSUMPTIONS = [
    "relative tolerance 1e-9 for depth relations, 1e-6 for scores",
    "one loaded Profile object is reused for all samples of a case (as the programming interface allows)",
]
MIN = {
    "quick": {"duplication_invariant": 300, "gene_reads_scale": 300, "self_profile_two": 300,
              "structure_depth_independent": 40, "empty_neutral_rejected": 20, "profile_file_roundtrip": 4},
    "thorough": {"duplication_invariant": 8000, "gene_reads_scale": 8000, "self_profile_two": 8000,
                 "structure_depth_independent": 1000, "empty_neutral_rejected": 500,
                 "profile_file_roundtrip": 15},
}
CASE_TIMEOUT = {"quick": 900, "thorough": 3000}


def plan(tier, seed):
    n = 48 if tier == "quick" else 1200
    cases = [{"kind": "gen", "seed": seed, "k": k} for k in range(n)]
    for k in range(2 if tier == "quick" else 12):
        cases.append({"kind": "profile_cmd", "seed": seed, "k": k,
                      "gene": ["cyp2c19", "tpmt", "nudt15", "cyp2a6"][k % 4]})
    cases.append({"kind": "na10860", "file": "NA10860.bam", "genome": "hg19"})
    if tier == "thorough":
        cases.append({"kind": "na10860", "file": "NA10860_hg38.bam", "genome": "hg38"})
    return cases


def dup(rds, k, only_gene=False):
    out = []
    for r in rds:
        times = k if (not only_gene or r.get("hap", 0) != -1) else 1
        for i in range(times):
            r2 = dict(r)
            r2["name"] = f"{r['name']}.{i}"
            out.append(r2)
    return out


def add_neutral_deletions(rds, rng, neutral):
    """Give some neutral-region reads a deletion (hostile for depth bookkeeping)."""
    for r in rds:
        if r.get("hap") == -1 and rng.random() < 0.3 and len(r["cigar"]) == 1 and r["cigar"][0][1] > 30:
            n = r["cigar"][0][1]
            a = rng.randint(5, n - 15)
            d = rng.randint(1, 6)
            r["cigar"] = [(0, a), (2, d), (0, n - a - d)]
            r["seq"] = r["seq"][:a] + r["seq"][a + d:]
            r["qual"] = r["qual"][: len(r["seq"])]


def add_seqless(rds, rng, where):
    """Alignment records without stored sequence (SEQ '*', as secondary alignments often are) among the reads of
    `where` ("neutral": hap -1)."""
    n = 0
    for r in rds:
        if (r.get("hap") == -1) == (where == "neutral") and rng.random() < 0.1 and r.get("seq") is not None:
            r["seq"] = None
            r["qual"] = None
            n += 1
    return n


def region_depths(sample):
    g = sample.gene
    return {(gi, r): sample.coverage.region_coverage(gi, r) for gi, regs in enumerate(g.regions) for r in regs}


def close(a, b, rel=1e-9):
    return abs(a - b) <= rel * max(1.0, abs(a), abs(b))


def _gen_case(res, case):
    from aldy.cn import estimate_cn
    from aldy.common import AldyException, GRange
    from aldy.profile import Profile
    from aldy.sam import Sample

    rng = util.rng_for("c07", case["seed"], case["k"])
    db = _sim.gen_db(rng.randrange(30), rng.choice(["hg19", "hg38"]), want_cn=True)
    g = db.gene
    rl = rng.choice([50, 100, 150])
    depth = rng.choice([10, 20, 25])
    copies = _sim.random_genotype(db, rng)
    haps = reads.haplotypes_for(g, copies)
    rds = reads.simulate(g, haps, rl=rl, depth=depth, ref=db.ref, neutral=db.neutral, rng=rng,
                         jitter=rng.random() < 0.5)
    add_neutral_deletions(rds, rng, db.neutral)
    scratch = util.scratch_dir()
    a, b = db.neutral
    r_ = rng.random()
    if r_ < 0.25:
        a2 = rng.randint(a + 200, b - 200)  # a neutral region shorter than the reads
        cn_region = GRange(g.chr, a2, a2 + rng.choice([20, 40, 70]))
    elif r_ < 0.6:
        a2 = rng.randint(a, a + (b - a) // 3)
        b2 = rng.randint(b - (b - a) // 3, b)
        cn_region = GRange(g.chr, a2, b2)
    else:
        cn_region = GRange(g.chr, a, b)
    # reference (profile) sample: two reference copies, also with deletions in the neutral region
    rc = db.reference_copy()
    rrds = reads.simulate(g, reads.haplotypes_for(g, [rc, rc]), rl=rl, depth=depth, ref=db.ref,
                          neutral=db.neutral, rng=rng)
    add_neutral_deletions(rrds, rng, db.neutral)
    seqless = 0
    if rng.random() < 0.35:
        seqless = add_seqless(rrds, rng, "neutral") + add_seqless(rds, rng, "neutral")
    # the neutral region on another contig (as CYP2D8 is for most genes), at coordinates that overlap the gene's
    extra_contigs = ()
    if rng.random() < 0.3:
        gstart = min(r.start for gg in g.regions for r in gg.values())
        delta = gstart + rng.randint(20, 200) - a
        for lst in (rds, rrds):
            for r in lst:
                if r.get("hap") == -1:
                    r["start"] += delta
                    r["tid"] = 1
        extra_contigs = (("N1", db.contig_len),)
        cn_region = GRange("N1", cn_region.start + delta, cn_region.end + delta)
    real_write = reads.write_bam

    def write_bam(path, chrom, contig_len, rr):
        return real_write(path, chrom, contig_len, rr, extra_contigs=extra_contigs)

    desc = {"db": db.label, "strand": g.strand, "planted": [list(c[:2]) for c in copies], "rl": rl,
            "depth": depth, "neutral": [cn_region.chr, cn_region.start, cn_region.end],
            "records_without_sequence_in_neutral_region": seqless}
    pbam = write_bam(os.path.join(scratch, "prof.bam"), g.chr, db.contig_len, rrds)
    prof = Profile.load(g, pbam, cn_region)
    # 3. the profile sample against its own profile
    s_self = Sample(g, prof, pbam)
    for (gi, r), v in region_depths(s_self).items():
        if prof.data[g.name][r][gi] != 0:
            res.check("self_profile_two", close(v, 2.0),
                      "profile sample against its own profile does not read 2.0", region=[gi, r], got=v, **desc)
    # sample S
    bam = write_bam(os.path.join(scratch, "s.bam"), g.chr, db.contig_len, rds)
    s1 = Sample(g, prof, bam)
    d1 = region_depths(s1)
    k = rng.choice([2, 3, 4, 5])
    bamk = write_bam(os.path.join(scratch, "sk.bam"), g.chr, db.contig_len, dup(rds, k))
    sk = Sample(g, prof, bamk)
    dk = region_depths(sk)
    for key in d1:
        res.check("duplication_invariant", close(d1[key], dk[key]),
                  "normalised region depth changes when every read is duplicated k times",
                  region=list(key), k=k, base=d1[key], duplicated=dk[key], **desc)
    bamg = write_bam(os.path.join(scratch, "sg.bam"), g.chr, db.contig_len, dup(rds, k, only_gene=True))
    sg = Sample(g, prof, bamg)
    dg = region_depths(sg)
    for key in d1:
        res.check("gene_reads_scale", close(k * d1[key], dg[key]),
                  "normalised region depth does not scale linearly when only the gene reads are multiplied",
                  region=list(key), k=k, base=d1[key], multiplied=dg[key], **desc)
    # repeated construction with the same Profile object gives the same depths
    s1b = Sample(g, prof, bam)
    res.check("repeatable_with_same_profile", region_depths(s1b) == d1,
              "a second sample normalised with the same profile object reads differently", **desc)
    # 4. structure independent of depth
    if g.do_copy_number:
        try:
            c1 = estimate_cn(g, prof, s1.coverage, "any")
            ck = estimate_cn(g, prof, sk.coverage, "any")
            sig = lambda cs: sorted((tuple(sorted(c.solution.items())), round(c.score, 6)) for c in cs)
            # the realigner's support for catalogued indels should scale with the reads; when it does not (an
            # indel found at one depth and not at the other) candidate structures are filtered differently
            moved = []
            for key in set(s1._indel_sites) | set(sk._indel_sites):
                o1, n1 = s1._indel_sites.get(key, [0, 0])
                ok_, nk = sk._indel_sites.get(key, [0, 0])
                f1 = n1 / (o1 + n1) if (o1 + n1) else 0.0
                fk = nk / (ok_ + nk) if (ok_ + nk) else 0.0
                if (n1 > 0) != (nk > 0) or abs(f1 - fk) > 0.1:
                    moved.append(f"{key[0] + 1}.{key[1]}: {[o1, n1]} -> {[ok_, nk]}")
            res.check("structure_depth_independent", sig(c1) == sig(ck),
                      "reported gene structure depends on sequencing depth",
                      mech="indel-support-depth-dependent" if (sig(c1) != sig(ck) and moved) else None,
                      base=sig(c1), duplicated=sig(ck), indel_support_not_proportional=moved, k=k, **desc)
        except AldyException as e:
            res.count("cn_rejected_low_depth")
    # 5. no reads in the neutral region -> rejected
    lo = min(a, min(r.start for gg in g.regions for r in gg.values())) - 0
    empty = GRange(g.chr, db.contig_len - 400, db.contig_len - 100)
    try:
        p2 = Profile.load(g, pbam, empty)
        Sample(g, p2, bam)
        ok, why = False, "no exception"
    except AldyException as e:
        ok, why = True, str(e)
    except ZeroDivisionError as e:
        ok, why = False, "ZeroDivisionError"
    res.check("empty_neutral_rejected", ok, "sample without reads in the neutral region was not rejected",
              outcome=why, **desc)
    # neutral region covered by the profile but not by the sample
    rds_no_neutral = [r for r in rds if r.get("hap") != -1]
    bamn = write_bam(os.path.join(scratch, "sn.bam"), g.chr, db.contig_len, rds_no_neutral)
    try:
        Sample(g, prof, bamn)
        ok, why = False, "no exception"
    except AldyException as e:
        ok, why = True, str(e)
    res.check("empty_neutral_rejected", ok, "sample without reads in the neutral region was not rejected",
              outcome=why, **desc)
    res.fp = util.fingerprint(desc)
    res.nontrivial = sum(1 for v in d1.values() if v > 0) >= 2
    if case["k"] < 2:
        res.sample = dict(desc, k=k, depths={f"{gi}:{r}": round(v, 3) for (gi, r), v in list(d1.items())[:6]})


def _profile_cmd_case(res, case):
    """Profile written by `aldy profile` and loaded again vs profile taken from the BAM directly."""
    import contextlib
    import io

    from aldy.profile import Profile
    from aldy.sam import Sample

    rng = util.rng_for("c07p", case["seed"], case["k"])
    genome = rng.choice(["hg19", "hg38"])
    db = _sim.shipped_db(case["gene"], genome)
    g = db.gene
    rc = db.reference_copy()
    pbam, rrds = db.sim([rc, rc], "pc_ref.bam", 100, 20)
    a, b = db.neutral
    region = f"{g.chr}:{a}-{b}"
    buf = io.StringIO()
    with contextlib.redirect_stdout(buf):
        try:
            util.run_main(["profile", pbam, "--genome", genome, "-n", region])
        except SystemExit:
            pass
    scratch = util.scratch_dir()
    ypath = os.path.join(scratch, "written.profile")
    with open(ypath, "w") as f:
        f.write(buf.getvalue())
    desc = {"gene": case["gene"], "genome": genome, "neutral": region}
    try:
        pf = Profile.load(g, ypath)
    except Exception as e:
        res.check("profile_file_roundtrip", False, f"profile written by the profile command does not load: {e!r}",
                  text=buf.getvalue()[:300], **desc)
        return
    pb = Profile.load(g, pbam, db.cn_region())
    res.check("profile_file_roundtrip", pf.data[g.name] == pb.data[g.name] and pf.neutral_value == pb.neutral_value
              and tuple(pf.cn_region) == tuple(pb.cn_region),
              "profile file written by the profile command differs from the profile taken from the BAM",
              file=[pf.neutral_value, list(pf.cn_region)], bam=[pb.neutral_value, list(pb.cn_region)], **desc)
    copies = _sim.random_genotype(db, rng, n=2)
    bam, rds = db.sim(copies, "pc_s.bam", 100, 20)
    try:
        s_f = Sample(g, pf, bam)
    except Exception as e:
        res.check("profile_file_roundtrip", False, f"a sample cannot be loaded with the written profile: {e!r}",
                  file_neutral=list(pf.cn_region), **desc)
        return
    s_b = Sample(g, pb, bam)
    res.check("profile_file_roundtrip", region_depths(s_f) == region_depths(s_b),
              "sample normalised with the written profile reads differently than with the BAM profile", **desc)
    s_self = Sample(g, pf, pbam)
    for (gi, r), v in region_depths(s_self).items():
        if pf.data[g.name][r][gi] != 0:
            res.check("self_profile_two", close(v, 2.0), "profile sample against its own written profile does not read 2.0",
                      region=[gi, r], got=v, **desc)
    res.fp = util.fingerprint(desc)
    res.nontrivial = True
    res.sample = desc


def _na10860_case(res, case):
    """The shipped BAM as its own profile: 2.0 up to the share of reads the evidence loader leaves out
    (supplementary / hard-clipped / sequence-less reads are in the profile but not in the sample)."""
    import pysam
    from aldy.common import GRange
    from aldy.profile import Profile
    from aldy.sam import Sample

    g = tables.gene("cyp2d6", case["genome"])
    path = os.path.join(util.REPO, "aldy/tests/resources", case["file"])
    cn_region = {"hg19": GRange("22", 42547463, 42548249), "hg38": GRange("22", 42151472, 42152258)}[case["genome"]]
    prof = Profile.load(g, path, cn_region)
    s = Sample(g, prof, path)
    # per region: bases the profile counted vs bases of eligible reads
    with pysam.AlignmentFile(path) as sam:
        prefix = "chr" if any(x["SN"].startswith("chr") for x in sam.header["SQ"]) else ""
        wr = g.get_wide_region()
        ptot = collections.Counter()
        pinel = collections.Counter()
        for r in sam.fetch(prefix + g.chr, max(0, wr.start - 1000), wr.end + 1000):
            if not r.cigartuples:
                continue
            bad = r.is_supplementary or "H" in (r.cigarstring or "") or not r.query_sequence
            c = r.reference_start
            for op, n in r.cigartuples:
                if op in (0, 2, 7, 8):
                    for i in range(c, c + n):
                        ptot[i] += 1
                        if bad:
                            pinel[i] += 1
                    c += n
        tot = collections.Counter()
        inel = collections.Counter()
        for gi, regs in enumerate(g.regions):  # regions of gene and pseudogene may overlap (CYP2D6 up / CYP2D7 rep)
            for rname, rg in regs.items():
                for i in range(rg.start, rg.end):
                    tot[(gi, rname)] += ptot[i]
                    inel[(gi, rname)] += pinel[i]
    for (gi, rname), v in region_depths(s).items():
        if prof.data[g.name][rname][gi] == 0 or tot[(gi, rname)] == 0:
            continue
        share = inel[(gi, rname)] / tot[(gi, rname)]
        res.check("self_profile_two", abs(v - 2.0 * (1 - share)) <= 1e-6 * 2 + 1e-9,
                  "shipped BAM against its own profile does not read 2.0 x (eligible / all bases)",
                  region=[gi, rname], got=v, eligible_share=1 - share, file=case["file"])
    res.fp = util.fingerprint(case)
    res.nontrivial = True
    res.sample = {"file": case["file"], "regions": len(tot)}


def run(case):
    util.import_aldy()
    res = Res()
    if case["kind"] == "na10860":
        import collections  # noqa
        _na10860_case(res, case)
        return res
    if case["kind"] == "gen":
        _gen_case(res, case)
    else:
        _profile_cmd_case(res, case)
    return res
