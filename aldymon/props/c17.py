"""C17 - a debug dump replays to the same result.

History monitor: run the real CLI on an alignment file with --debug, then on the produced archive with
the same parameters; the return values of genotype() (captured by rebinding aldy.__main__.genotype)
and the output files of the two runs are compared.
"""
import os

from .. import util
from ..gen import reads
from ..util import Res
from . import _sim

ID = "C17"
RULE = (
    "one history = genotype(<bam> --debug p) ; genotype(p.tar.gz) with equal parameters, on simulated "
    "samples (generated databases: indels, fusions, several structures via a fractional copy, phase "
    "records; shipped genes with exome / wes profiles and three copies; BAM headers that cannot be "
    "identified, with and without an explicit genome) and, in the thorough tier, the shipped NA10860 "
    "BAM; non-trivial = the first run produced a call with at least one non-reference allele; "
    "distinct by the history's description"
)
ASSUMPTIONS = [
    "scores are compared at 1e-6 relative (the archive stores counts, not floats)",
    "parameters are passed identically to both runs (including the profile argument)",
]
MIN = {
    "quick": {"same_solutions": 25, "same_scores": 25, "same_output_file": 25, "same_sample_name": 25},
    "thorough": {"same_solutions": 500, "same_scores": 500, "same_output_file": 500, "same_sample_name": 500},
}
CASE_TIMEOUT = {"quick": 900, "thorough": 3600}
TOTAL_TIMEOUT = {"quick": 1800, "thorough": 7200}


def plan(tier, seed):
    n = 36 if tier == "quick" else 700
    cases = [{"kind": "gen", "seed": seed, "k": k} for k in range(n)]
    for k in range(8 if tier == "quick" else 60):
        cases.append({"kind": "shipped", "seed": seed, "k": k})
    for k in range(6 if tier == "quick" else 80):
        cases.append({"kind": "multi", "seed": seed, "k": k})
    cases.insert(0, {"kind": "na10860"})  # (first: it is the longest single case)
    return cases


class MainCapture:
    """Rebinds the early-bound aldy.__main__.genotype and records return values / errors."""

    def __init__(self):
        import aldy.__main__ as m

        self.m = m
        self.orig = m.genotype
        self.calls = []
        cap = self

        def wrap(*a, **k):
            try:
                out = cap.orig(*a, **k)
                cap.calls.append(("ok", out))
                return out
            except Exception as e:
                cap.calls.append(("err", e))
                raise

        self.wrap = wrap

    def __enter__(self):
        self.m.genotype = self.wrap
        return self

    def __exit__(self, *a):
        self.m.genotype = self.orig


def signature(call):
    kind, val = call
    if kind == "err":
        return {"error": type(val).__name__ + ": " + str(val)[:200]}
    out = {}
    for gene_db, sols in val.items():
        lst = []
        for s in sols:
            lst.append({
                "structure": sorted(s.major_solution.cn_solution.solution.items()),
                "structure_score": s.major_solution.cn_solution.score,
                "major": sorted((a.major, n) for a, n in s.major_solution.solution.items()),
                "major_added": sorted(map(str, s.major_solution.added)),
                "major_score": s.major_solution.score,
                "minor": sorted((a.major, a.minor, tuple(sorted(map(str, a.added))), tuple(sorted(map(str, a.missing))))
                                for a in s.solution),
                "score": s.score,
                "diplotype": s.get_major_diplotype(),
            })
        out[os.path.basename(str(gene_db))] = lst
    return out


def strip_scores(sig):
    import copy

    s = copy.deepcopy(sig)
    scores = []
    for k, v in s.items():
        if isinstance(v, list):
            for d in v:
                scores.append((d.pop("structure_score"), d.pop("major_score"), d.pop("score")))
    return s, scores


def run_pair(res, argv_common, bam, desc, sample_name_expected=None):
    scratch = util.scratch_dir()
    prefix = os.path.join(scratch, "dbg")
    out1, out2 = os.path.join(scratch, "o1.aldy"), os.path.join(scratch, "o2.aldy")
    for p in (prefix + ".tar.gz", out1, out2):
        if os.path.exists(p):
            os.remove(p)
    with MainCapture() as c1:
        try:
            with util.time_limit(90):
                util.run_main(["genotype", bam] + argv_common + ["--debug", prefix, "--output", out1])
        except SystemExit:
            pass
        except util.Slow:
            res.count("skipped_slow")
            return False
    if not os.path.exists(prefix + ".tar.gz"):
        res.check("archive_written", False, "no debug archive was written", **desc)
        return False
    with MainCapture() as c2:
        try:
            with util.time_limit(90):
                util.run_main(["genotype", prefix + ".tar.gz"] + argv_common + ["--output", out2])
        except SystemExit:
            pass
        except util.Slow:
            res.count("skipped_slow")
            return False
    if any(k == "err" and isinstance(v, util.Slow) for k, v in c1.calls + c2.calls):
        # the wall-clock limit fired inside genotype() and main() reported it as that gene's error: inconclusive
        res.count("skipped_slow")
        return False
    if not c1.calls or not c2.calls:
        res.check("both_ran", False, "a run did not reach genotype()", first=len(c1.calls), second=len(c2.calls), **desc)
        return False
    s1, s2 = signature(c1.calls[-1]), signature(c2.calls[-1])
    a1, sc1 = strip_scores(s1)
    a2, sc2 = strip_scores(s2)
    res.check("same_solutions", a1 == a2,
              "replaying the debug archive gives different structures / major / minor solutions",
              from_alignments=a1, from_archive=a2, **desc)
    ok = len(sc1) == len(sc2) and all(
        abs(x - y) <= 1e-6 * max(1.0, abs(x)) for t1, t2 in zip(sc1, sc2) for x, y in zip(t1, t2))
    res.check("same_scores", ok, "replaying the debug archive gives different scores",
              from_alignments=sc1, from_archive=sc2, **desc)
    t1 = open(out1).read() if os.path.exists(out1) else None
    t2 = open(out2).read() if os.path.exists(out2) else None
    res.check("same_output_file", t1 == t2, "output files of the two runs differ",
              first=(t1 or "")[:300], second=(t2 or "")[:300], **desc)
    n1 = [ln.split("\t")[0] for ln in (t1 or "").split("\n") if ln and not ln.startswith("#")]
    n2 = [ln.split("\t")[0] for ln in (t2 or "").split("\n") if ln and not ln.startswith("#")]
    res.check("same_sample_name", set(n1) == set(n2) and (not n1 or sample_name_expected is None
                                                           or set(n1) == {sample_name_expected}),
              "sample name differs between the run and its replay", first=sorted(set(n1)), second=sorted(set(n2)), **desc)
    called = c1.calls[-1][0] == "ok" and any(
        any(a.major != "1" for a in s.solution) for sols in c1.calls[-1][1].values() for s in sols)
    return called


def run(case):
    util.import_aldy()
    res = Res()
    scratch = util.scratch_dir()
    nontrivial = False
    if case["kind"] == "gen":
        rng = util.rng_for("c17", case["seed"], case["k"])
        genome = rng.choice(["hg19", "hg38"])
        db = _sim.gen_db(rng.randrange(30), genome, want_cn=True)
        g = db.gene
        rl, depth = rng.choice([60, 100, 150]), 20
        copies = _sim.random_genotype(db, rng)
        haps = reads.haplotypes_for(g, copies)
        if len(haps) >= 3 and rng.random() < 0.4:
            haps[-1]["depth"] = rng.choice([10, 12, 14])
        rds = reads.simulate(g, haps, rl=rl, depth=depth, ref=db.ref, neutral=db.neutral, rng=rng,
                             paired=rng.random() < 0.5, error_rate=rng.choice([0, 0, 0.003]))
        # a profile *file* carrying its own options (values the archive has to carry too, including falsy ones);
        # the reads of one planted copy then have mapping quality 5 so that `min_mapq: 0` matters
        # features are assigned by case number so that every tier drives each of them several times
        feature = {1: "cli_min_avg", 2: "opts_mapq", 3: "opts_min_avg", 4: "overlap", 5: "neutral_hole"}.get(case["k"] % 6)
        if feature == "neutral_hole":
            # a few bases of the neutral region without any read (low-depth / partial capture)
            a0 = db.neutral[0] + 300
            rds = [r_ for r_ in rds if not (r_.get("hap") == -1 and r_["start"] <= a0 + 6 and r_["start"] + rl >= a0)]
        popts = None
        if rng.random() < 0.3 or feature in ("opts_mapq", "opts_min_avg", "overlap"):
            popts = {}
            if feature == "overlap":
                # the profile presets a parameter the user also gives: the user's value counts, in both runs
                popts["min_avg_coverage"] = 100
            if rng.random() < 0.7 or feature == "opts_mapq":
                popts["min_mapq"] = 0
                for r_ in rds:
                    if r_.get("hap") == 0:
                        r_["mapq"] = 5
            if rng.random() < 0.4:
                popts["phase"] = False
            if rng.random() < 0.3:
                popts["min_quality"] = 0
            if rng.random() < 0.3:
                popts["max_minor_solutions"] = 2
            if rng.random() < 0.25 or feature == "opts_min_avg":
                popts["min_avg_coverage"] = rng.choice([60, 100])
            if rng.random() < 0.25:
                popts["display_format"] = True
        bam = reads.write_bam(os.path.join(scratch, "smp1.bam"), g.chr, db.contig_len, rds)
        a, b = db.neutral
        prof_arg = db.ref_bam(rl, depth)
        if popts is not None:
            import yaml
            from aldy.profile import Profile

            regions = {(g.name, r, gi): rg for gi, gr in enumerate(g.regions) for r, rg in gr.items()}
            d = Profile.get_sam_profile_data(prof_arg, regions=regions, genome=genome, cn_region=db.cn_region())
            d["options"] = dict(popts)
            prof_arg = os.path.join(scratch, "with_options.profile")
            with open(prof_arg, "w") as f:
                f.write(yaml.dump(d, default_flow_style=None))
        argv = ["--gene", db.path, "--profile", prof_arg]
        if popts is None:
            argv += ["-n", f"{g.chr}:{a}-{b}"]  # (a profile file names its own neutral region)
        explicit = not (genome == "hg19" and rng.random() < 0.5)
        if explicit:
            argv += ["--genome", genome]
        params = []
        if rng.random() < 0.5:
            params += ["--param", f"gap={rng.choice([0.1, 0.3])}"]
        if rng.random() < 0.5:
            params += ["--param", f"max-minor-solutions={rng.choice([2, 3])}"]
        if rng.random() < 0.3:
            params += ["--param", "phase=false"]
        if rng.random() < 0.2:
            params += ["--param", "display_format=true"]
        if feature == "cli_min_avg":
            params += ["--param", f"min_avg_coverage={rng.choice([60, 100])}"]
        elif feature == "overlap":
            params += ["--param", "min_avg_coverage=5"]
        elif rng.random() < 0.25:
            # also minimum depths above the sample's own (about 40x): both runs must then refuse the gene
            params += ["--param", f"min_avg_coverage={rng.choice([5, 5, 60, 100])}"]
        if rng.random() < 0.15:
            params += ["--cn", ",".join(sorted(__import__("collections").Counter(
                g.alleles[c[0]].cn_config for c in copies if c[0] != g.deletion_allele()).elements()))]
        desc = {"db": db.label, "planted": [list(c[:2]) for c in copies], "rl": rl, "explicit_genome": explicit,
                "params": params, "chrom": g.chr, "profile_file_options": popts}
        nontrivial = run_pair(res, argv + params, bam, desc, "smp1")
        if case["k"] < 2:
            res.sample = desc
    elif case["kind"] == "multi":
        # an archive holding two genes (one BAM with both loci on different contigs)
        rng = util.rng_for("c17m", case["seed"], case["k"])
        genome = rng.choice(["hg19", "hg38"])
        for _ in range(40):
            a = _sim.gen_db(rng.randrange(30), genome, want_cn=True)
            b = _sim.gen_db(rng.randrange(30), genome, want_cn=True, name="GENY")
            if a.chrom != b.chrom:
                break
        else:
            res.count("skipped_same_contig")
            res.fp, res.nontrivial = util.fingerprint(case), False
            return res

        def both(fname, ca, cb):
            rds = []
            for tid, (db, copies) in enumerate(((a, ca), (b, cb))):
                rr = reads.simulate(db.gene, reads.haplotypes_for(db.gene, copies), rl=100, depth=20, ref=db.ref,
                                    neutral=a.neutral if tid == 0 else None, rng=rng, name_prefix=f"t{tid}r")
                for r in rr:
                    r["tid"] = tid
                rds += rr
            return reads.write_bam(os.path.join(scratch, fname), a.chrom, a.contig_len, rds,
                                   extra_contigs=[(b.chrom, b.contig_len)])

        ra, rb = a.reference_copy(), b.reference_copy()
        refbam = both("m_ref.bam", [ra, ra], [rb, rb])
        ca, cb = _sim.random_genotype(a, rng), _sim.random_genotype(b, rng)
        bam = both("smp3.bam", ca, cb)
        n0, n1 = a.neutral
        order = [a.path, b.path] if rng.random() < 0.5 else [b.path, a.path]
        argv = ["--gene", ",".join(order), "--profile", refbam, "-n", f"{a.chrom}:{n0}-{n1}", "--genome", genome]
        desc = {"dbs": [a.label, b.label], "planted": [[list(c[:2]) for c in ca], [list(c[:2]) for c in cb]],
                "order": [os.path.basename(p) for p in order]}
        nontrivial = run_pair(res, argv, bam, desc, "smp3")
        res.sample = desc if case["k"] < 2 else None
    elif case["kind"] == "shipped":
        rng = util.rng_for("c17s", case["seed"], case["k"])
        genome = rng.choice(["hg19", "hg38"])
        db = _sim.shipped_db(rng.choice(["cyp2a6", "cyp2a6", "cyp2a6", "cyp2c19", "gstm1"]), genome)
        g = db.gene
        copies = _sim.random_genotype(db, rng, n=rng.choice([1, 3, 3, 3]) if g.do_copy_number else 2)
        bam, rds = db.sim(copies, "smp2.x.bam", 100, 20)
        a, b = db.neutral
        prof = rng.choice(["exome", "wes", "wxs", "exome", "illumina", "wgs"])
        argv = ["--gene", db.path, "--profile", prof, "-n", f"{g.chr}:{a}-{b}", "--genome", genome]
        desc = {"db": db.label, "planted": [list(c[:2]) for c in copies], "profile": prof}
        nontrivial = run_pair(res, argv, bam, desc, "smp2")
        res.sample = desc
    else:
        bam = os.path.join(util.REPO, "aldy/tests/resources/NA10860.bam")
        argv = ["--gene", "cyp2d6", "--profile", "illumina", "--param", "max-minor-solutions=3",
                "--param", "minor_phase_vars=10"]
        desc = {"file": "NA10860.bam"}
        nontrivial = run_pair(res, argv, bam, desc, "NA10860")
        res.sample = desc
    res.fp = util.fingerprint(case)
    res.nontrivial = bool(nontrivial)
    return res
