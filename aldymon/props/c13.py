"""C13 - calls do not depend on genome build or gene strand.

Metamorphic monitor: the same evidence, described in RefSeq terms, is expressed against both genome
builds (shipped databases: hg19 vs hg38; generated databases whose builds use opposite strands and
different offsets) and run through the real stages; end to end, the simulator writes alignments
against each build.  Results are compared by allele names, RefSeq notation and scores (minor-stage
scores with the tie-breaker part removed).
"""
import collections
import hashlib
import os

from .. import lpmon, util
from ..gen import dbgen, reads, tables
from ..util import Res
from . import _sim, _tables, c04

ID = "C13"
RULE = (
    "stage cases: (database, planted multiset, depth, noise keyed by RefSeq notation, extra variants) "
    "evaluated in both builds through solve_cn_model / estimate_major / estimate_minor; end-to-end "
    "cases: simulated alignments against each build through genotype(); non-trivial = a non-reference "
    "allele and (noise or a structural allele); distinct by the RefSeq-level description"
)
ASSUMPTIONS = [
    "evidence cells are identified by the RefSeq notation of the catalogue variants at a site; sites whose variant grouping differs between strands (insertion next to a substitution) get no noise",
    "minor-stage scores compared with the tie-breaker part removed (it depends on construction order)",
    "when both builds reach the same optimum but report different equivalent assignments this is the listed solver-tie finding, anything else is a violation",
]
MIN = {
    "quick": {"structures_equal": 60, "majors_equal": 150, "minor_scores_equal": 120, "minor_solutions_equal": 120,
              "end_to_end_equal": 20, "each_build_correct": 40, "vcf_builds_equal": 10},
    "thorough": {"structures_equal": 1500, "majors_equal": 3500, "minor_scores_equal": 3000,
                 "minor_solutions_equal": 3000, "end_to_end_equal": 250, "each_build_correct": 500,
                 "vcf_builds_equal": 200},
}
CASE_TIMEOUT = {"quick": 900, "thorough": 3000}
SHIPPED = ["cyp2c19", "tpmt", "nudt15", "cyp2a6", "cyp2c9", "cyp3a5", "cyp2d6", "slco1b1", "ugt1a1", "cyp2b6"]


def plan(tier, seed):
    n = 36 if tier == "quick" else 900
    cases = [{"kind": "stage", "seed": seed, "batch": b, "n": 5} for b in range(n)]
    for k in range(24 if tier == "quick" else 400):
        cases.append({"kind": "e2e", "seed": seed, "k": k})
    for k in range(30 if tier == "quick" else 300):
        cases.append({"kind": "vcf", "seed": seed, "k": k})
    return cases


def h01(*parts):
    d = hashlib.sha256("/".join(map(str, parts)).encode()).digest()
    return int.from_bytes(d[:6], "big") / float(1 << 48)


def refseq_of(g, m):
    return g.get_refseq(m[0], m[1])


def evidence(g, copies, depth, eps, seed, extra_written):
    """Counts in this build's coordinates from a RefSeq-level description."""
    from aldy.gene import Mutation

    counts = tables.planted_counts(g, copies, depth)
    by_written = {refseq_of(g, m): Mutation(*m) for m in g.mutations}
    for w, n in extra_written.items():
        if w in by_written:
            m = by_written[w]
            counts.setdefault(m.pos, {})
            counts[m.pos][m.op] = counts[m.pos].get(m.op, 0) + n
    site_sig = {}
    for (p, o) in g.mutations:
        site_sig.setdefault(p, []).append(refseq_of(g, (p, o)))
    out = {}
    for p, ops in counts.items():
        sig = tuple(sorted(site_sig.get(p, [])))
        out[p] = {}
        for op, n in ops.items():
            cell = refseq_of(g, (p, op)) if op != "_" else "_"
            mult = 1 + eps * (2 * h01(seed, sig, cell) - 1)
            out[p][op] = max(0, int(round(n * mult)))
    return out, {p: tuple(sorted(v)) for p, v in site_sig.items()}


def canon_major(g, sols):
    return sorted((tuple(sorted((a.major, n) for a, n in s.solution.items())),
                   tuple(sorted(refseq_of(g, m) for m in s.added)), round(s.score, 6)) for s in sols)


def canon_minor_solution(g, s):
    return tuple(sorted((a.major, a.minor, tuple(sorted(refseq_of(g, m) for m in a.added)),
                         tuple(sorted(refseq_of(g, m) for m in a.missing))) for a in s.solution))


def expanded_solutions(g, sols):
    """Major alleles and the multiset of all carried variants (RefSeq notation) per solution: two solutions that
    agree here distribute the same variants differently over the copies of the same major alleles.
    sols: [tuple of (major, minor, added RefSeq, missing RefSeq)]"""
    out = []
    for sol in sols:
        vs = collections.Counter()
        for (ma, mi, added, missing) in sol:
            own = collections.Counter(g.get_refseq(m) for m in tables.allele_variants(g, ma, mi))
            own.update(added)
            own.subtract(missing)
            vs.update({k: v for k, v in own.items() if v > 0})
        out.append((tuple(sorted(a[0] for a in sol)), tuple(sorted(vs.elements()))))
    return out


def _two_builds(rng):
    """(name, gene in build A, gene in build B, strands)"""
    if rng.random() < 0.45:
        name = rng.choice(SHIPPED)
        return name, tables.gene(name, "hg19"), tables.gene(name, "hg38")
    seed = rng.randrange(40)
    import random

    key = ("c13", seed)
    if key not in _CACHE:
        spec = dbgen.random_spec(random.Random(seed * 31 + 5), strands=rng.choice([(1, -1), (-1, 1)]),
                                 hostile=0.5, kinds=_sim.READ_KINDS, silent_kinds=_sim.SILENT_KINDS)
        _CACHE[key] = (spec, dbgen.load(spec, "hg19"), dbgen.load(spec, "hg38"))
    spec, ga, gb = _CACHE[key]
    return f"gen{seed}", ga, gb


_CACHE = {}


_REGIONS_DONE = set()


def check_regions(res, name, ga, gb):
    """A RefSeq base lies in the same named region of the gene in both builds (so that fusion break points and
    the region copy test mean the same thing)."""
    if name in _REGIONS_DONE:
        return
    _REGIONS_DONE.add(name)
    bad = []
    n = 0
    for r, ca in ga.ref_to_chr.items():
        cb = gb.ref_to_chr.get(r)
        if cb is None:
            continue
        n += 1
        ra, rb = ga.region_at(ca), gb.region_at(cb)
        if (ra and ra[0] == 0 and rb and rb[0] == 0 and ra[1] != rb[1]) or (bool(ra) != bool(rb)):
            bad.append((r, ra, rb))
            if len(bad) > 4:
                break
    if name.startswith("gen"):
        res.check("regions_mean_the_same", not bad,
                  "a RefSeq base lies in different regions of the gene in the two builds",
                  db=name, strands=[ga.strand, gb.strand], examples=bad, compared=n)
        for an in list(ga.alleles)[:12]:
            if an in gb.alleles:
                diff = [r for r, ca in list(ga.ref_to_chr.items())[::7]
                        if r in gb.ref_to_chr and ga.has_coverage(an, ca) != gb.has_coverage(an, gb.ref_to_chr[r])][:3]
                res.check("regions_mean_the_same", not diff,
                          "an allele has gene copies at a RefSeq base in one build only", db=name, allele=an,
                          refseq_positions=diff)
    elif bad:
        res.count("shipped_region_tables_differ_between_builds")


def _stage_case(res, rng, ident):
    from aldy.cn import solve_cn_model
    from aldy.major import estimate_major
    from aldy.minor import estimate_minor
    from aldy.profile import Profile
    from aldy.solutions import CNSolution

    name, ga, gb = _two_builds(rng)
    check_regions(res, name, ga, gb)
    copies = _tables.random_copies(ga, rng, n=rng.choice([1, 2, 2, 3]))
    if any(c[0] not in gb.alleles or c[1] not in gb.alleles[c[0]].minors for c in copies):
        res.count("skipped_catalogues_differ")
        return None
    depth = rng.choice([10, 20, 30])
    eps = rng.choice([0, 0.1, 0.2, 0.35])
    seed = rng.getrandbits(32)
    gap = rng.choice([0, 0, 0.1])
    extra = {}
    fm = sorted(refseq_of(ga, m) for m in ga.mutations if ga.is_functional(m))
    if fm and rng.random() < 0.3:
        extra[rng.choice(fm)] = rng.randint(2, depth)
    # an uncatalogued exonic substitution (given in RefSeq terms) seen in one copy's worth of reads, refined with
    # the `novel` switch: its inferred effect must not depend on the strand the build puts the gene on
    novel_r = None
    if rng.random() < 0.25:
        comp = {"A": "T", "C": "G", "G": "C", "T": "A"}
        cat_r = {ga.chr_to_ref.get(p) for p, _ in ga.mutations} | {gb.chr_to_ref.get(p) for p, _ in gb.mutations}
        cands = [r for (s_, e_) in ga.exons for r in range(s_, e_)
                 if r in ga.ref_to_chr and r in gb.ref_to_chr and not any((r + d) in cat_r for d in (-1, 0, 1))]
        if cands:
            r = rng.choice(cands)
            pa = ga.ref_to_chr[r]
            ref_r = ga[pa] if ga.strand > 0 else comp.get(ga[pa], "N")
            if ref_r in comp:
                novel_r = (r, ref_r, rng.choice([b for b in "ACGT" if b != ref_r]))
    desc = {"db": name, "strands": [ga.strand, gb.strand], "copies": [list(c) for c in copies], "depth": depth,
            "eps": eps, "gap": gap, "noise_seed": seed, "extra": extra, "ident": ident,
            "novel_refseq_variant": list(novel_r) if novel_r else None}
    runs = []
    sigs = [collections.Counter(evidence(g, copies, depth, 0, seed, extra)[1].values()) for g in (ga, gb)]
    if sigs[0] != sigs[1]:
        # an insertion shares its key position with a neighbouring substitution on one strand only: the
        # reference cells of the two builds are not in one-to-one correspondence, so no noise is applied
        eps = 0
        desc["eps"] = 0
    for g in (ga, gb):
        counts, sig = evidence(g, copies, depth, eps, seed, extra)
        if novel_r:
            comp = {"A": "T", "C": "G", "G": "C", "T": "A"}
            p_ = g.ref_to_chr[novel_r[0]]
            rb, ab = (novel_r[1], novel_r[2]) if g.strand > 0 else (comp[novel_r[1]], comp[novel_r[2]])
            ncov = sum(1 for c in copies if g.has_coverage(c[0], p_))
            if ncov and g[p_] == rb and p_ not in counts:
                counts[p_] = {"_": depth * (ncov - 1), f"{rb}>{ab}": depth}
        prof = Profile("test", gap=gap)
        cov = tables.make_coverage(g, counts, profile=prof)
        cn = CNSolution(g, 0, tables.cn_list(g, copies))
        out = {}
        if g.do_copy_number:
            depths = tables.region_depths(g, tables.cn_list(g, copies))
            depths = {r: (round(a + 0.3 * (2 * h01(seed, "cn", r, 0) - 1), 3),
                          round(max(0, b + 0.3 * (2 * h01(seed, "cn", r, 1) - 1)), 3) if len(g.regions) > 1 else 0.0)
                      for r, (a, b) in depths.items()}
            try:
                cns = solve_cn_model(g, prof, g.cn_configs, 4, depths, "any")
                out["cn"] = sorted((tuple(sorted(c.solution.items())), round(c.score, 6)) for c in cns)
            except RecursionError:
                out["cn"] = None
        try:
            majors = estimate_major(g, cov, cn, "any")
        except RecursionError:
            res.count("skipped_recursion")
            return None
        out["major"] = canon_major(g, majors)
        out["minor"] = None
        if majors and len(majors) <= 4:
            lpmon.reset()
            with c04.Capture() as cap:
                minors = estimate_minor(g, cov, majors, "any", novel=bool(novel_r))
            per_major = {}
            for call in cap.calls:
                ma = c04.model_assignments(call)
                mk = tuple(sorted((a.major, n) for a, n in call["major_sol"].solution.items())) + \
                    tuple(sorted(refseq_of(g, m) for m in call["major_sol"].added))
                best = ma[0][1] if ma else None
                n_add = sum(1 for n_ in call["rec"].initial.names if n_.startswith("N_")) if call["rec"] else 0
                per_major[mk] = (best, [canon_minor_solution(g, s) for s in call["sols"]], n_add,
                                 call["cov"].profile.minor_add)
            out["minor"] = per_major
        runs.append(out)
    a, b = runs
    # shipped databases: the per-build region tables put some RefSeq bases into different regions (UGT1A1's hg19
    # table has exon 1 31 kb upstream of where the RefSeq maps it); uncatalogued variants are kept or dropped by
    # region, so with the `novel` switch the refinement then depends on the build
    region_mech = None
    if novel_r and not name.startswith("gen"):
        # with the switch on, every supported variant outside the candidates' pool is kept or dropped by region:
        # the uncatalogued one and the planted variants of alleles that are not among the candidates
        supported_r = {novel_r[0]}
        for c in copies:
            for m in tables.allele_variants(ga, *c):
                if m.pos in ga.chr_to_ref:
                    supported_r.add(ga.chr_to_ref[m.pos])
        for w in extra:
            for m in ga.mutations:
                if refseq_of(ga, m) == w and m[0] in ga.chr_to_ref:
                    supported_r.add(ga.chr_to_ref[m[0]])
        differing = []
        for r in sorted(supported_r):
            if r in ga.ref_to_chr and r in gb.ref_to_chr:
                ra, rb = ga.region_at(ga.ref_to_chr[r]), gb.region_at(gb.ref_to_chr[r])
                if ra != rb:
                    differing.append([r, str(ra), str(rb)])
        if differing:
            region_mech = "shipped-region-tables-differ-between-builds"
            desc["supported_variants_in_differing_regions"] = differing[:4]
    same_sites = sigs[0] == sigs[1]
    if not same_sites:
        res.count("cases_with_strand_dependent_site_grouping")
    if a.get("cn") is not None and b.get("cn") is not None:
        res.check("structures_equal", a["cn"] == b["cn"], "gene structures / scores differ between builds",
                  first=a["cn"][:3], second=b["cn"][:3], **desc)
    mech = None if same_sites else "site-grouping-differs-by-strand"
    res.check("majors_equal", a["major"] == b["major"], "major solutions / scores differ between builds",
              mech=mech if a["major"] != b["major"] else None, first=a["major"][:3], second=b["major"][:3], **desc)
    if a["minor"] is not None and b["minor"] is not None and a["major"] == b["major"]:
        for mk in a["minor"]:
            if mk not in b["minor"]:
                continue
            sa, la, na, madd = a["minor"][mk]
            sb, lb, nb, _ = b["minor"][mk]
            if sa is None or sb is None:
                res.check("minor_scores_equal", sa is None and sb is None and la == lb,
                          "one build refines a major solution, the other does not", mech=mech, major=str(mk), **desc)
                continue
            # both optima are exact for their own tie-breaker; they can differ by at most its mass
            band = madd * max(na, nb) / 1e6 * 12 + 1e-6
            res.check("minor_scores_equal", abs(sa - sb) <= band,
                      "minor-stage optimum (tie-breaker removed) differs between builds",
                      mech=(region_mech or mech) if abs(sa - sb) > band else None, first=sa, second=sb,
                      major=str(mk), **desc)
            if abs(sa - sb) <= band:
                res.check("minor_solutions_equal", la == lb,
                          "same optimum, but the reported assignment of added / lost variants differs between builds",
                          mech="solver-tie-between-equivalent-assignments", first=la[:1], second=lb[:1],
                          major=str(mk), **desc)
    if any(c[0] != "1" for c in copies) and (eps or any(ga.alleles[c[0]].cn_config != "1" for c in copies)):
        return desc
    return None


def _e2e_case(res, case):
    rng = util.rng_for("c13e", case["seed"], case["k"])
    import random

    seed = rng.randrange(30)
    opts = dict(want_cn=True, strands=rng.choice([(1, -1), (-1, 1)]), hostile=0.5)
    tandem = case["k"] % 3 == 2
    if tandem:
        # a catalogued deletion of one unit inside a tandem tract (several equivalent placements; aligners put it
        # leftmost on whichever strand they see), genotyped with the realigner off
        opts["tandem_del"] = True
        opts["want_cn"] = False  # (no structural alleles: a partial deletion over the site would tie with the call)
    dba = _sim.gen_db(seed, "hg19", **opts)
    dbb = _sim.gen_db(seed, "hg38", **opts)
    copies = _sim.random_genotype(dba, rng)
    if tandem and dba.spec["truth"].get("tandem_variant"):
        tv = dba.spec["truth"]["tandem_variant"]
        owners = [an for an, a in dba.gene.alleles.items() if a.cn_config == "1" and any(
            dba.gene.get_refseq(m) == f"{tv[0]}{tv[1]}" for m in a.func_muts)]
        if owners:
            copies = [dba.first_minor(owners[0]), dba.first_minor(owners[0]) if rng.random() < 0.4 else dba.reference_copy()]
    if not dba.gene.do_copy_number:
        # (a database without structural alleles is always genotyped with two copies)
        copies = copies[:2] if len(copies) >= 2 else copies * 2
    if any(c[0] not in dbb.gene.alleles for c in copies):
        res.count("skipped_catalogues_differ")
        return None
    rl, depth = rng.choice([60, 100, 150]), 20
    phase = rng.random() < 0.5
    # the realigner switched off: catalogued indels are matched through their equivalent placements instead
    fast = rng.random() < 0.3 or tandem
    outs, subs = [], []
    from . import c01

    desc = {"db": dba.label, "strands": [dba.gene.strand, dbb.gene.strand], "copies": [list(c[:2]) for c in copies],
            "rl": rl, "phase": phase, "realigner_off": fast}
    for db in (dba, dbb):
        sub = Res()
        try:
            with util.time_limit(120):
                c01.check_sample(sub, db, copies, rl, depth, dict(desc, build=db.genome),
                                 dict({"phase": phase}, **({"indelpost": False} if fast else {})), truth=True)
        except util.Slow:
            res.count("skipped_slow")
            return None
        outs.append(sub._sols)
        subs.append(sub)
    # each build on its own (the C01 oracle with reads derived from the database's written notation)
    unexplained = False
    for sub in subs:
        for d in sub.disc:
            if d["mech"] is None:
                unexplained = True
                res.check("each_build_correct", False, d["what"], **d["witness"])
    res.seen("each_build_correct", 2)
    mech = None

    def coarse(o):
        if o is None:
            return None
        return sorted((tuple(sorted((a[0], a[1]) for a in sol)), tuple(sorted(v for a in sol for v in a[2])),
                       tuple(sorted(v for a in sol for v in a[3])), cn) for sol, cn in o)

    def _exp(db, o):
        if o is None:
            return None
        return sorted(zip(expanded_solutions(db.gene, [sol for sol, cn in o]), [cn for sol, cn in o]))

    if outs[0] != outs[1] and (coarse(outs[0]) == coarse(outs[1])
                               or _exp(dba, outs[0]) == _exp(dbb, outs[1])):
        mech = "solver-tie-between-equivalent-assignments"  # same alleles and variants, other copy carries them
    elif outs[0] != outs[1] and not unexplained and (
            any(sub.disc for sub in subs)
            or any(v for sub in subs for v in (getattr(sub, "_observables", None) or {}).values())):
        # every per-build deviation is one of the listed C01 mechanisms, or the sample has an indel whose
        # evidence is demonstrably placement / realigner dependent (C01's exact observables)
        mech = "indel-evidence-differs-by-strand"
    res.check("end_to_end_equal", outs[0] == outs[1],
              "genotyping alignments of the same sample against the two builds gives different solutions",
              mech=mech, first=str(outs[0])[:400], second=str(outs[1])[:400], **desc)
    return desc


def _vcf_case(res, case):
    """The same diploid sample written as a VCF against each build; in one build the assembly carries the
    alternate base of a catalogued SNP (REF differs from the RefSeq-derived reference there)."""
    from aldy.genotype import genotype

    from ..gen import vcfgen

    rng = util.rng_for("c13v", case["seed"], case["k"])
    seed = rng.randrange(30)
    opts = dict(want_cn=False, strands=rng.choice([(1, -1), (-1, 1)]), hostile=0.3,
                kinds=["snp", "snp", "snp", "del"], silent_kinds=["snp", "del"])
    dba = _sim.gen_db(seed, "hg19", **opts)
    dbb = _sim.gen_db(seed, "hg38", **opts)
    ga = dba.gene
    cands = [c for c in tables.all_copies(ga) if ga.alleles[c[0]].cn_config == "1"]
    copies = [rng.choice(cands), rng.choice(cands)]
    # RefSeq-level genotype: copies of every written variant
    want = collections.Counter()
    for c in copies:
        for m in tables.allele_variants(ga, *c):
            want[refseq_of(ga, m)] += 1
    snps = sorted(refseq_of(ga, m) for m in ga.mutations if ">" in m[1] and len(m[1]) == 3)
    flip = rng.choice(snps) if snps and rng.random() < 0.8 else None
    carried_snps = sorted(w for w in snps if want.get(w))
    if flip and carried_snps and rng.random() < 0.7:
        flip = rng.choice(carried_snps)  # mostly a site where the sample shows the assembly's (REF) base
    flip_build = rng.choice(["hg19", "hg38"])
    outs = []
    desc = {"db": dba.label, "strands": [dba.gene.strand, dbb.gene.strand], "copies": [list(c) for c in copies],
            "assembly_carries_alt_of": flip, "in_build": flip_build}
    for db in (dba, dbb):
        g = db.gene
        by_written = {refseq_of(g, m): m for m in g.mutations}
        recs = []
        for w, m in sorted(by_written.items()):
            k = want.get(w, 0)
            flipped = (w == flip and db.genome == flip_build)
            if not k and not flipped:
                continue
            for (pos1, r, alts) in vcfgen.records_for(g, db.ref, m):
                if flipped:
                    # assembly base = variant base: REF = alt, ALT = RefSeq base; carriers of the variant are REF
                    gt = {0: "1/1", 1: "0/1", 2: "0/0"}[k]
                    recs.append((pos1, alts[0], [r], [gt]))
                else:
                    recs.append((pos1, r, alts, [{1: "0/1", 2: "1/1"}[k]]))
        vcf = vcfgen.write_vcf(os.path.join(util.scratch_dir(), f"v_{db.genome}.vcf"), g.chr, db.contig_len, recs)
        try:
            with util.time_limit(60):
                out = genotype(db.path, vcf, None, None, genome=db.genome)
            sols = list(out.values())[0]
            outs.append(sorted(canon_minor_solution(g, s) for s in sols))
        except util.Slow:
            res.count("skipped_slow")
            return None
        except Exception as e:
            outs.append("error: " + repr(e)[:100])
    mech = None
    if outs[0] != outs[1] and not isinstance(outs[0], str) and not isinstance(outs[1], str) and \
            sorted(expanded_solutions(dba.gene, outs[0])) == sorted(expanded_solutions(dbb.gene, outs[1])):
        mech = "solver-tie-between-equivalent-assignments"  # same variants, distributed differently over the copies
    elif outs[0] != outs[1] and any("ins" in w for w in want):
        # VCF insertions get no support and their pseudo-reads are booked at a neighbouring position (listed for
        # C16); which neighbour depends on the strand.  Exact observable: the two samples' evidence, transported
        # to RefSeq terms, differs only within two bases of a planted insertion.
        from aldy.gene import Mutation as _M
        from aldy.profile import Profile as _P
        from aldy.sam import Sample as _S

        tabs = []
        for db in (dba, dbb):
            g = db.gene
            smp = _S(g, _P("user_provided", cn_solution=["1", "1"]),
                     os.path.join(util.scratch_dir(), f"v_{db.genome}.vcf.gz"))
            t = {}
            for (p, op) in g.mutations:
                r = g.chr_to_ref.get(p)
                t[("var", refseq_of(g, (p, op)))] = (r, smp.coverage.coverage(_M(p, op)))
                t[("ref", r)] = (r, smp.coverage.coverage(_M(p, "_")))
            tabs.append(t)
        ins_r = [dba.gene.chr_to_ref.get(m[0]) for m in dba.gene.mutations
                 if m[1].startswith("ins") and refseq_of(dba.gene, m) in want]
        # (sites keyed in one build only - every insertion's anchor moves by one base with the strand - carry no
        # comparable reading)
        diff = [k for k in set(tabs[0]) & set(tabs[1]) if tabs[0][k][1] != tabs[1][k][1]]
        where = [(tabs[0].get(k) or tabs[1].get(k))[0] for k in diff]
        if diff and all(w is not None and any(abs(w - i) <= 2 for i in ins_r if i is not None) for w in where):
            mech = "vcf-insertion-evidence-differs-by-strand"
            desc["evidence_differs_at_refseq"] = sorted(set(where))
    res.check("vcf_builds_equal", outs[0] == outs[1],
              "the same sample written as a VCF against the two builds is genotyped differently", mech=mech,
              first=str(outs[0])[:400], second=str(outs[1])[:400], **desc)
    return desc


def run(case):
    util.import_aldy()
    lpmon.install()
    res = Res()
    fps = []
    if case["kind"] == "vcf":
        d = _vcf_case(res, case)
        if d:
            fps.append(util.fingerprint(d))
            res.sample = d if case["k"] < 2 else None
    elif case["kind"] == "stage":
        for k in range(case["n"]):
            rng = util.rng_for("c13", case["seed"], case["batch"], k)
            d = _stage_case(res, rng, [case["seed"], case["batch"], k])
            res.count("stage_cases")
            if d:
                fps.append(util.fingerprint(d))
                if res.sample is None and case["batch"] < 3:
                    res.sample = d
    else:
        d = _e2e_case(res, case)
        if d:
            fps.append(util.fingerprint(d))
            res.sample = d if case["k"] < 2 else None
    res.fp = util.fingerprint(fps)
    res.nontrivial = bool(fps)
    res.counters["distinct_nontrivial_cases"] = len(set(fps))
    return res


def summarize(results):
    return {"distinct_nontrivial_cases": sum(r["counters"].get("distinct_nontrivial_cases", 0) for r in results)}
