"""C12 - result files state exactly the reported solutions.

Monitor: the text produced by the real writers (called directly and through genotype()) is parsed
back by independent parsers and compared, per solution and allele copy, with
definition + added - lost.
"""
import collections
import io
import os

from .. import util
from ..gen import tables
from ..util import Res

ID = "C12"
RULE = (
    "one case = a list of 1-4 solutions x 1-4 allele copies (random catalogued minors, added and "
    "lost variants incl. insertions / deletions, solutions that differ) over the toy gene, CYP2D6 "
    "and generated databases, written by both writers and parsed back; non-trivial = some copy has "
    "a variant and (several solutions or added/lost variants); distinct by the solutions' content; "
    "plus genotype(output_file=*.aldy|*.vcf|*.simple) on a shipped debug dump"
)
ASSUMPTIONS = [
    "decomposition 'Location' is the 0-based genome position the tool uses internally (the statement only fixes one-based positions for the VCF)",
    "VCF records are compared cell by cell; a wrong cell is a known finding only if it is exactly what the documented defect mechanism produces",
]
MIN = {
    "quick": {"decomp_rows": 2000, "decomp_empty_row": 100, "vcf_gt": 3000, "vcf_pos": 1000,
              "vcf_refalt_snp": 500, "genotype_output": 3},
    "thorough": {"decomp_rows": 50000, "decomp_empty_row": 2000, "vcf_gt": 80000, "vcf_pos": 20000,
                 "vcf_refalt_snp": 10000, "genotype_output": 3},
}
CASE_TIMEOUT = {"quick": 900, "thorough": 3000}
GENES = ["toy", "toy", "cyp2d6", "gen", "gen", "gen", "cyp2c19"]


def plan(tier, seed):
    n = 64 if tier == "quick" else 1600
    cases = [{"kind": "dump", "file": "INS.dump.tar.gz", "ext": e} for e in ("aldy", "vcf", "simple")]
    cases += [{"kind": "writers", "seed": seed, "batch": b, "n": 10} for b in range(n)]
    return cases


def carried(gene, a):
    return (tables.allele_variants(gene, a.major, a.minor) | set(a.added)) - set(a.missing)


def _random_solution(g, rng, ncopies, base=None):
    from aldy.gene import Mutation
    from aldy.profile import Profile
    from aldy.solutions import CNSolution, MajorSolution, MinorSolution, SolvedAllele

    dele = g.deletion_allele()
    names = [a for a in g.alleles if a != dele]
    allm = sorted(g.mutations)
    alleles = []
    for i in range(ncopies):
        if base is not None and i < len(base) and rng.random() < 0.6:
            b = base[i]
            ma, mi = b.major, b.minor
        else:
            ma = rng.choice(names)
            mi = rng.choice(list(g.alleles[ma].minors))
        own = tables.allele_variants(g, ma, mi)
        added, missing = [], []
        for _ in range(rng.choice([0, 0, 1, 2])):
            m = Mutation(*rng.choice(allm))
            if m not in own and m not in added:
                added.append(m)
        neutral = sorted(g.alleles[ma].minors[mi].neutral_muts)
        r = rng.random()
        if neutral and r < 0.3:
            missing.append(rng.choice(neutral))
        elif neutral and r < 0.4:
            missing = list(neutral)
        core = sorted(g.alleles[ma].func_muts)
        if core and rng.random() < 0.15:
            missing.append(rng.choice(core))  # hand-made solutions may also lose a defining variant
        alleles.append(SolvedAllele(g, ma, mi, added, missing))
    cn = CNSolution(g, 0, [g.alleles[a.major].cn_config for a in alleles])
    major = MajorSolution(0, collections.Counter(SolvedAllele(g, a.major) for a in alleles), cn, [])
    sol = MinorSolution(0, alleles, major, profile=Profile("x"))
    from aldy.diplotype import estimate_diplotype

    estimate_diplotype(g, sol)
    return sol


def check_decomposition(res, g, cov, sol, sol_id, text, desc, sample="smp"):
    rows = [ln.split("\t") for ln in text.split("\n") if ln and not ln.startswith("#")]
    by_copy = collections.defaultdict(list)
    for r in rows:
        ok = len(r) >= 13
        res.check("decomp_columns", ok, "decomposition row has too few columns", row=r, **desc)
        if not ok:
            continue
        res.check("decomp_header_fields",
                  r[0] == sample and r[1] == g.name and r[2] == str(sol_id)
                  and r[3] == sol.get_major_diplotype().replace(" ", "")
                  and r[4] == ";".join(a.minor for a in sol.solution),
                  "sample / gene / solution id / diplotype / allele list of a row differ from the solution",
                  row=r[:5], **desc)
        by_copy[int(r[5])].append(r)
    res.check("decomp_copies", set(by_copy) == set(range(len(sol.solution))),
              "decomposition does not have rows for exactly the solution's allele copies",
              copies_in_file=sorted(by_copy), copies=len(sol.solution), **desc)
    for ci, a in enumerate(sol.solution):
        want = sorted(carried(g, a))
        got_rows = by_copy.get(ci, [])
        if not want:
            ok = len(got_rows) == 1 and got_rows[0][6] == a.minor and all(x == "" for x in got_rows[0][7:])
            res.check("decomp_empty_row", ok, "copy without variants does not get exactly one empty row",
                      copy=ci, allele=a.minor, rows=got_rows, **desc)
            continue
        got = []
        for r in got_rows:
            got.append((r[7], r[8]))
        res.check("decomp_rows", got == [(str(m.pos), m.op) for m in want],
                  "rows of a copy are not exactly definition + added - lost",
                  copy=ci, allele=a.minor, rows=got, expected=[(m.pos, m.op) for m in want], **desc)
        for r, m in zip(got_rows, want):
            if (r[7], r[8]) != (str(m.pos), m.op):
                continue
            fn = g.mutations[m][0] if m in g.mutations else None
            rs = g.mutations[m][1] if m in g.mutations else "-"
            ok = (r[6] == a.minor and r[9] == str(cov[m]) and r[10] == (fn if fn else "none") and r[11] == rs)
            res.check("decomp_fields", ok, "allele / read support / effect / dbSNP id of a row are wrong",
                      row=r, expected=[a.minor, cov[m], fn or "none", rs], **desc)


def check_vcf(res, g, cov, sols, text, desc, sample="smp"):
    from aldy.gene import Mutation

    lines = text.split("\n")
    head = [ln for ln in lines if ln.startswith("#CHROM")]
    res.check("vcf_header", len(head) == 1, "no single #CHROM header line", **desc)
    if not head:
        return
    cols = head[0].split("\t")
    names = cols[9:]
    res.check("vcf_columns", names == [f"{sample}:{i}:{s.get_major_diplotype().replace(' ', '')}"
                                       for i, s in enumerate(sols)],
              "sample columns do not describe one solution each", columns=names, **desc)
    recs = [ln.split("\t") for ln in lines if ln and not ln.startswith("#")]
    want_vars = set()
    for s in sols:
        for a in s.solution:
            want_vars |= carried(g, a)
    # what the defective writer effectively computes per (variant, copy index): union over all solutions
    union = collections.defaultdict(set)
    for s in sols:
        for ai, a in enumerate(s.solution):
            for m in tables.allele_variants(g, a.major, a.minor) | set(a.added):
                union[m].add(ai)
    seen = set()
    byid = {}
    for r in recs:
        if len(r) < 9 + len(sols):
            res.check("vcf_record", False, "record has too few columns", record=r, **desc)
            continue
        pos1 = int(r[1])
        fmt = r[8].split(":")
        # identify the variant the record talks about by position and the bases it spells
        allv = sorted(set(union) | want_vars)
        hit = None
        for m in allv:
            if m in seen or m.pos + 1 not in (pos1, pos1 + 1):
                continue
            if ">" in m.op and len(m.op) == 3:
                ok = m.pos + 1 == pos1 and r[4] == m.op[2]
            elif m.op.startswith("ins"):
                ok = r[4].endswith(m.op[3:]) and len(r[4]) == len(m.op[3:]) + 1
            elif m.op.startswith("del") and "ins" not in m.op:
                ok = (r[4] == f"{m.op[3:]}, ." and m.pos + 1 == pos1) or r[3].endswith(m.op[3:])
            else:
                ok = m.pos + 1 == pos1 and r[4] == f"{m.op[3:]}, ."
            if ok:
                hit = m
                break
        if hit is None:
            res.check("vcf_record", False, "record does not correspond to a variant of the solutions",
                      record=r[:9], **desc)
            continue
        seen.add(hit)
        m = hit
        res.check("vcf_pos", r[0] == g.chr and pos1 == m.pos + 1, "CHROM/POS is not the one-based variant position",
                  record=r[:5], variant=str(m), **desc)
        res.check("vcf_id", r[2] == (g.mutations[m][1] if m in g.mutations else "-"), "ID is not the dbSNP id",
                  record=r[:5], **desc)
        if ">" in m.op and len(m.op) == 3:
            # (the toy test database's variants do not all match its own RefSeq; the variant's own
            # reference allele is what "the reference" means there)
            res.check("vcf_refalt_snp", r[4] == m.op[2] and r[3] == m.op[0],
                      "REF/ALT of a substitution do not spell the variant against the reference",
                      record=r[:5], variant=str(m), **desc)
        else:
            if m.op.startswith("ins"):
                good = (r[3] == g[m.pos] and r[4] == g[m.pos] + m.op[3:])
                buggy = (r[3] == m.op[0] and r[4] == m.op[0] + m.op[3:])
            elif m.op.startswith("del") and "ins" not in m.op:
                good = (pos1 == m.pos and r[3] == g[m.pos - 1] + m.op[3:] and r[4] == g[m.pos - 1])
                buggy = (r[3] == "." and r[4] == f"{m.op[3:]}, .")
            else:
                good = False
                buggy = (r[3] == "." and r[4] == f"{m.op[3:]}, .")
            res.check("vcf_refalt_indel", good,
                      "REF/ALT of an insertion / deletion / multi-nucleotide record do not spell the variant "
                      "against the reference", mech="vcf-nonsnp-refalt" if buggy else None,
                      record=r[:5], variant=str(m), **desc)
        for si, s in enumerate(sols):
            n = len(s.solution)
            raw = r[9 + si]
            exp = [1 if m in carried(g, a) else 0 for a in s.solution]
            defect = [1 if ai in union[m] else 0 for ai in range(n)]

            def cell_for(bits):
                return ":".join([
                    "|".join(str(b) for b in bits), str(cov[m]),
                    ",".join(f"*{a.major}" if e else "-" for a, e in zip(s.solution, bits)),
                    ",".join(f"*{a.minor}" if e else "-" for a, e in zip(s.solution, bits))])

            res.check("vcf_format", r[8] == "GT:DP:MA:MI", "FORMAT column is not GT:DP:MA:MI", got=r[8], **desc)
            mech = None
            if raw != cell_for(exp) and raw == cell_for(defect):
                other = any(e == 0 and d == 1 and (m not in (tables.allele_variants(g, a.major, a.minor) | set(a.added)))
                            for e, d, a in zip(exp, defect, s.solution))
                mech = "vcf-shared-table" if other else "vcf-lost-variant"
            gt = raw.split(":")[0].split("|")
            got = [int(x) if x.isdigit() else -1 for x in gt]
            res.check("vcf_gt", got == exp,
                      "GT of a sample column differs from 'copy i carries the variant in this solution'",
                      mech=mech, variant=str(m), solution=si, got=gt, expected=exp, **desc)
            res.check("vcf_mami", raw == cell_for(exp) or (got != exp and raw == cell_for(got)),
                      "DP/MA/MI do not state the read support and exactly the carrying copies",
                      mech=mech if raw == cell_for(defect) else None,
                      variant=str(m), solution=si, cell=raw, expected=cell_for(exp), **desc)
            named = [a for a, e in zip(s.solution, got if len(got) == n else exp) if e == 1]
            if any(":" in a.major or ":" in a.minor for a in named):
                res.check("vcf_cell_parseable", False,
                          "allele name contains ':' (aldy's own renaming, e.g. CYP2D6*68:2) - the sample cell "
                          "cannot be split into GT:DP:MA:MI unambiguously", mech="vcf-colon-in-name",
                          cell=raw, **desc)
            else:
                res.check("vcf_cell_parseable", raw.count(":") == 3, "sample cell does not have four fields",
                          cell=raw, **desc)
    missing = want_vars - seen
    res.check("vcf_all_variants", not missing, "a carried variant has no VCF record",
              variants=[str(m) for m in sorted(missing)], **desc)


def _writers_case(res, rng, ident):
    from aldy.diplotype import write_decomposition, write_vcf

    gname = rng.choice(GENES)
    genome = rng.choice(["hg19", "hg38"])
    if gname == "gen":
        from ..gen import dbgen

        g = dbgen.random_gene(rng, genome=genome)
        if rng.random() < 0.35:
            # first write files for a twin database: same coordinates and changes, other effect / dbSNP
            # annotations - nothing of it may leak into the files of this database
            import copy

            twin = copy.deepcopy(g._gen_spec)
            for a in twin["yml"]["alleles"].values():
                muts = a if isinstance(a, list) else a.get("mutations", [])
                for m in muts:
                    if isinstance(m[0], int):
                        while len(m) < 4:
                            m.append("-" if len(m) == 2 else "twin_effect")
                        m[2] = "rs9" + str(m[0])
                        m[3] = "twin_" + str(m[3])
            gt = dbgen.load(twin, genome)
            tsol = _random_solution(gt, rng, 2)
            tcov = tables.make_coverage(gt, {})
            tb = io.StringIO()
            write_decomposition("smp", gt, tcov, 1, tsol, tb)
            write_vcf("smp", gt, tcov, [tsol], tb)
    else:
        g = tables.gene(gname, genome)
    nsol = rng.choice([1, 1, 2, 2, 3, 4])
    ncop = rng.choice([1, 2, 2, 3, 4])
    sols = []
    for i in range(nsol):
        n = ncop if rng.random() < 0.8 else rng.choice([1, 2, 3, 4])
        sols.append(_random_solution(g, rng, n, base=sols[0].solution if sols and rng.random() < 0.7 else None))
    # read support for every variant
    counts = collections.defaultdict(dict)
    for m in g.mutations:
        counts[m[0]][m[1]] = rng.randint(0, 40)
    cov = tables.make_coverage(g, counts)
    desc = {"gene": gname, "genome": genome, "ident": ident,
            "solutions": [[[a.major, a.minor, [str(m) for m in a.added], [str(m) for m in a.missing]]
                           for a in s.solution] for s in sols]}
    for i, s in enumerate(sols):
        buf = io.StringIO()
        write_decomposition("smp", g, cov, i + 1, s, buf)
        check_decomposition(res, g, cov, s, i + 1, buf.getvalue(), desc)
    buf = io.StringIO()
    write_vcf("smp", g, cov, sols, buf)
    check_vcf(res, g, cov, sols, buf.getvalue(), desc)
    nontrivial = any(carried(g, a) for s in sols for a in s.solution) and (
        nsol > 1 or any(a.added or a.missing for s in sols for a in s.solution))
    return desc if nontrivial else None


def _dump_case(res, case):
    from aldy.genotype import genotype

    path = os.path.join(util.REPO, "aldy/tests/resources", case["file"])
    scratch = util.scratch_dir()
    kw = dict(gap=0, max_minor_solutions=3, minor_phase_vars=10)
    for ext in (case["ext"],):
        out = os.path.join(scratch, f"out.{ext}")
        with open(out, "w") as f:
            result = genotype("cyp2d6", path, "illumina", f, **kw)
        sols = list(result.values())[0]
        with open(out) as f:
            text = f.read()
        import aldy.sam
        g = sols[0].major_solution.cn_solution.gene
        desc = {"file": case["file"], "kind": ext}
        # the evidence the run used is needed for the read-support column: reload the sample
        from aldy.profile import Profile

        sample = aldy.sam.Sample(g, None, path)
        cov = sample.coverage
        name = sample.name
        if ext == "aldy":
            lines = text.split("\n")
            res.check("genotype_output", lines[0].startswith("#Sample\tGene\tSolutionID"),
                      "decomposition output lacks the column header", first=lines[0][:80], **desc)
            blocks = text.split("#Solution ")[1:]
            res.check("genotype_output", len(blocks) == len(sols), "one block per reported solution expected",
                      blocks=len(blocks), solutions=len(sols), **desc)
            for i, (b, s) in enumerate(zip(blocks, sols)):
                head, _, body = b.partition("\n")
                res.check("genotype_output", head == f"{i + 1}: {s._solution_nice()}",
                          "solution header line differs", head=head, **desc)
                check_decomposition(res, g, cov, s, i + 1, body, desc, sample=name)
        elif ext == "vcf":
            res.check("genotype_output", text.startswith("##fileformat=VCF"), "VCF output lacks the header", **desc)
            check_vcf(res, g, cov, sols, text, desc, sample=name)
        else:
            exp = [name, g.name]
            for s in sols:
                exp += [s.get_major_diplotype().replace(" ", ""),
                        s.get_minor_diplotype(legacy=True).replace(" ", "")]
            got = text.rstrip("\n").rstrip("\t").split("\t")
            res.check("genotype_output", got == exp and text.endswith("\n") and text.count("\n") == 1,
                      "simple output line differs from the reported solutions", got=got, expected=exp, **desc)
    res.sample = {"kind": "dump", "file": case["file"], "solutions": len(sols)}


def run(case):
    util.import_aldy()
    res = Res()
    fps = []
    if case["kind"] == "dump":
        _dump_case(res, case)
        fps = ["dump-" + case["ext"]]
    else:
        for k in range(case["n"]):
            rng = util.rng_for("c12", case["seed"], case["batch"], k)
            d = _writers_case(res, rng, [case["seed"], case["batch"], k])
            res.count("writer_cases")
            if d:
                fps.append(util.fingerprint(d["solutions"] + [d["gene"], d["genome"]]))
                if res.sample is None and case["batch"] < 2:
                    res.sample = d
    res.fp = util.fingerprint(fps)
    res.nontrivial = bool(fps)
    res.counters["distinct_solution_lists"] = len(set(fps))
    return res


def summarize(results):
    return {"distinct_nontrivial_solution_lists": sum(r["counters"].get("distinct_solution_lists", 0) for r in results)}
