"""Shared helpers for the read-level (simulated sample) workloads."""
import os

from .. import util
from ..gen import dbgen, reads, tables

READ_KINDS = ["snp", "snp", "snp", "del", "ins", "mnp", "mnpdot"]
SILENT_KINDS = ["snp", "snp", "del", "ins"]  # (silent multi-nucleotide variants: see known finding C06)


class SimDB:
    """A gene database (generated or shipped) in one build, with everything needed to simulate samples."""

    def __init__(self):
        self.gene = self.path = self.ref = self.neutral = self.contig_len = None
        self.spec = None
        self.genome = None
        self.label = None
        self._bams = {}

    @property
    def chrom(self):
        return self.gene.chr

    def cn_region(self):
        from aldy.common import GRange

        return GRange(self.gene.chr, self.neutral[0], self.neutral[1])

    def first_minor(self, major):
        return (major, next(iter(self.gene.alleles[major].minors)))

    def reference_copy(self):
        g = self.gene
        cands = [(len(tables.allele_variants(g, a, mi)), a, mi) for a, al in g.alleles.items()
                 if al.cn_config == "1" for mi in al.minors]
        cands.sort()
        return (cands[0][1], cands[0][2])

    def truth_edits(self, haps):
        """For generated databases: replace the loader-derived variants of unfused catalogue alleles by
        edits computed from the database's written notation through the generator's own maps."""
        if self.spec is None:
            return haps
        from ..ref import catalogue

        if not hasattr(self, "_model"):
            self._model = catalogue.YamlModel(dbgen.to_yaml(self.spec), self.genome)
        y = self.spec["yml"]["alleles"]
        for h in haps:
            al = h.get("allele")
            if not al or al[1] is None or "#" in al[1]:
                continue
            key = f"{self.spec['yml']['name']}*{al[1]}"
            if key not in y:
                continue
            written = [(m[0], m[1]) for m in y[key]["mutations"] if isinstance(m[0], int)]
            if all(self._model.mappable(p, o) for p, o in written) and len(written) == len(h["variants"]):
                h["edits"] = reads.edits_from_written(self._model, written)
        return haps

    def sim(self, copies, fname, rl=100, depth=20, truth=False, **kw):
        """Write a BAM for the given copies [(major, minor[, added, missing])]."""
        g = self.gene
        haps = reads.haplotypes_for(g, copies)
        if truth:
            haps = self.truth_edits(haps)
        rds = reads.simulate(g, haps, rl=rl, depth=depth, ref=self.ref, neutral=self.neutral, **kw)
        # generated databases own a directory (one per option set): same-named files of another option set with
        # the same label must not be overwritten
        d = os.path.dirname(self.path) if self.spec is not None and os.path.sep in str(self.path) else util.scratch_dir()
        path = os.path.join(d, fname)
        reads.write_bam(path, g.chr, self.contig_len, rds)
        return path, rds

    def ref_bam(self, rl=100, depth=20):
        key = (rl, depth)
        if key not in self._bams:
            rc = self.reference_copy()
            self._bams[key] = self.sim([rc, rc], f"ref_{self.label}_{rl}_{depth}.bam", rl, depth)[0]
        return self._bams[key]


_CACHE = {}


def gen_db(seed, genome, **opts):
    key = ("gen", seed, genome, tuple(sorted((k, str(v)) for k, v in opts.items())))
    if key in _CACHE:
        return _CACHE[key]
    import random

    o = dict(want_cn=True, kinds=READ_KINDS, silent_kinds=SILENT_KINDS, hostile=0.2)
    o.update(opts)
    spec = dbgen.random_spec(random.Random(seed * 104729 + 7), **o)
    db = SimDB()
    db.spec = spec
    db.genome = genome
    db.label = f"g{seed}{genome}"
    # one directory per option set: databases generated from one seed with different options must not
    # overwrite each other's file (the cached SimDB objects keep pointing at their path)
    import hashlib
    import os

    sub = os.path.join(util.scratch_dir(), "db" + hashlib.sha1(repr(key).encode()).hexdigest()[:10])
    os.makedirs(sub, exist_ok=True)
    db.path = dbgen.write(spec, sub, f"{o.get('name', 'genx').lower()}_{seed}.yml")
    db.gene = dbgen.load(spec, genome)
    T = spec["truth"]["builds"][genome]
    db.ref = reads.Ref(db.gene, T["genome_seq"])
    db.neutral = tuple(T["neutral"])
    db.contig_len = T["contig_len"]
    _CACHE[key] = db
    return db


def shipped_db(name, genome):
    key = ("shipped", name, genome)
    if key in _CACHE:
        return _CACHE[key]
    db = SimDB()
    db.genome = genome
    db.label = f"{name}{genome}"
    db.path = name
    db.gene = tables.gene(name, genome)
    db.ref = reads.Ref(db.gene, None, salt=name)
    hi = max(r.end for g in db.gene.regions for r in g.values())
    db.neutral = (hi + 1200, hi + 2000)
    db.contig_len = hi + 4000
    _CACHE[key] = db
    return db


def structural_order(g, copies):
    """Put the non-default configurations first (they must be among the two complete haplotypes)."""
    return sorted(copies, key=lambda c: g.alleles[c[0]].cn_config == "1")


def random_genotype(db, rng, n=None, allow_structural=True):
    """Admissible multiset of 1-4 catalogued alleles following aldy's structural model."""
    g = db.gene
    dele = g.deletion_allele()
    normal = [c for c in tables.all_copies(g) if g.alleles[c[0]].cn_config == "1"]
    other = [c for c in tables.all_copies(g) if g.alleles[c[0]].cn_config != "1" and c[0] != dele]
    if n is None and dele and g.pseudogenes and allow_structural and rng.random() < 0.06:
        return []  # both haplotypes carry the whole-gene deletion
    n = n or rng.choice([1, 2, 2, 2, 3, 3, 4])
    if not dele and n < 2:
        n = 2
    copies = []
    own = [c for c in other if g.alleles[c[0]].func_muts]
    if allow_structural and own and rng.random() < 0.25:
        # a structural allele with its own core variant next to two or three further copies
        copies = [rng.choice(own)] + [rng.choice(normal) for _ in range(rng.choice([2, 2, 3]))]
        return structural_order(g, copies)
    for i in range(n):
        if allow_structural and other and i < 2 and rng.random() < 0.3:
            copies.append(rng.choice(other))
        else:
            copies.append(rng.choice(normal))
    return structural_order(g, copies)


def genotype(db, bam, profile_bam=None, output=None, **params):
    from aldy.genotype import genotype as gt

    kw = dict(genome=db.genome)
    kw.update(params)
    if "cn_solution" in kw or kw.pop("no_profile", False):
        return gt(db.path, bam, None, output, **kw)
    return gt(db.path, bam, profile_bam or db.ref_bam(), output, cn_region=db.cn_region(), **kw)


def solution_summary(sol):
    return {"diplotype": sol.get_major_diplotype(), "score": round(sol.score, 6),
            "alleles": [[a.major, a.minor, sorted(str(m) for m in a.added), sorted(str(m) for m in a.missing)]
                        for a in sol.solution],
            "structure": dict(sol.major_solution.cn_solution.solution)}
