"""C18 - model parameters take the values the user gave, through every route.

Monitor: the Profile object handed to the run is captured where genotype() hands it on
(Sample construction / estimate_cn), after the parameter travelled through the real CLI
parser, genotype(), Profile.load / Profile.__init__ / Profile.update; its attribute is
compared with the documented type's reading of the given spelling.
"""
import io
import os

from .. import util
from ..util import Res

ID = "C18"
RULE = (
    "one case = (route, parameter); every spelling of the parameter's documented type is "
    "pushed through that route and the attribute of the Profile the run receives is compared "
    "(type and value) with the documented reading; non-trivial = the value differs from the "
    "parameter's default; distinct = (route, parameter, spelling, value)"
)
ASSUMPTIONS = [
    "documented types are the types of the defaults in Profile.__init__",
    "malformed is only asserted for values the type cannot read at all (gap=abc)",
    "the exome profile's own min_coverage override is not treated as a user parameter",
]
EXHAUSTIVE = True
MIN = {
    "quick": {"value_api": 100, "value_cli": 60, "value_options": 60, "roundtrip": 30,
              "unknown_ignored": 3, "malformed_rejected": 10},
    "thorough": {"value_api": 100, "value_cli": 60, "value_options": 60, "roundtrip": 60,
                 "unknown_ignored": 3, "malformed_rejected": 10},
}
CASE_TIMEOUT = {"quick": 300, "thorough": 600}

ROUTES = ["init", "update", "genotype_api", "genotype_api_cn", "cli", "cli_dash", "cli_dump",
          "options", "options_override", "roundtrip", "roundtrip_cli"]


class _Stop(Exception):
    pass


def _params():
    """name -> default, from a pristine Profile."""
    from aldy.profile import Profile

    p = Profile("probe")
    skip = {"name", "cn_region", "data", "cn_solution"}
    return {k: v for k, v in p.__dict__.items() if k not in skip}


# neutral_value is profile data (Profile.load passes it itself), not a user parameter
API_ONLY = {"neutral_value"}


def _spellings(default, strings_only=False, yaml_native=False):
    """(given, expected) pairs for the documented type of `default`."""
    out = []
    if isinstance(default, bool):
        for v in [True, 1, "1", "true", "True", "TRUE", "tRuE"]:
            out.append((v, True))
        for v in [False, 0, "0", "false", "False", "FALSE", "fAlSe"]:
            out.append((v, False))
    elif isinstance(default, int):
        for v in [7, "7", 0, "0", "12", 3000]:
            out.append((v, int(v)))
    elif isinstance(default, float):
        for v in [0.25, "0.25", 3, "3", "1e-2", 0, "0.0", "17.5"]:
            out.append((v, float(v)))
    elif isinstance(default, str):
        for v in ["map-ont", "I223M;rs1065852", "x"]:
            out.append((v, v))
    if strings_only:
        out = [(g, e) for g, e in out if isinstance(g, str)]
    return out


def _malformed(default):
    if isinstance(default, bool) or isinstance(default, str):
        return []
    return ["abc", "1x", ""] if isinstance(default, float) else ["abc", "x1"]


def plan(tier, seed):
    util.import_aldy()
    cases = []
    for route in ROUTES:
        for name in _params():
            if name in API_ONLY and route not in ("init", "update"):
                continue
            cases.append({"route": route, "param": name})
    cases.append({"route": "unknown", "param": "no_such_parameter"})
    return cases


def _same(actual, expected):
    return type(actual) is type(expected) and actual == expected


def _capture_run(fn):
    """Run fn() with Sample construction / estimate_cn replaced by recorders; return captured profiles."""
    import aldy.sam
    import aldy.cn

    got = []
    orig_sample, orig_cn = aldy.sam.Sample, aldy.cn.estimate_cn

    class Stub:
        def __init__(self, gene, profile, *a, **k):
            got.append(profile)
            raise _Stop()

    def cn_stub(gene, profile, *a, **k):
        got.append(profile)
        raise _Stop()

    aldy.sam.Sample = Stub
    aldy.cn.estimate_cn = cn_stub
    err = None
    try:
        fn()
    except _Stop:
        pass
    except SystemExit as e:
        err = e
    except Exception as e:  # AldyException for rejected values
        err = e
    finally:
        aldy.sam.Sample = orig_sample
        aldy.cn.estimate_cn = orig_cn
    return got, err


def _capture_dump_run(fn):
    import aldy.cn

    got = []
    orig_cn = aldy.cn.estimate_cn

    def cn_stub(gene, profile, *a, **k):
        got.append(profile)
        raise _Stop()

    aldy.cn.estimate_cn = cn_stub
    err = None
    try:
        fn()
    except _Stop:
        pass
    except SystemExit as e:
        err = e
    except Exception as e:
        err = e
    finally:
        aldy.cn.estimate_cn = orig_cn
    return got, err


def _res_path(name):
    return os.path.join(util.REPO, "aldy", "tests", "resources", name)


def _write_profile(path, gene, options):
    import yaml

    d = {
        "neutral": {"value": 1000, gene.genome: [gene.chr, 1000, 2000]},
        gene.name: {r: [100] * len(gene.regions) for r in gene.regions[0]},
    }
    if options is not None:
        d["options"] = options
    with open(path, "w") as f:
        yaml.safe_dump(d, f)


_GENE = {}


def _gene():
    from aldy.gene import Gene

    if "g" not in _GENE:
        _GENE["g"] = Gene(os.path.join(util.REPO, "aldy/resources/genes/nudt15.yml"), genome="hg19")
    return _GENE["g"]


def run(case):
    util.import_aldy()
    from aldy.profile import Profile
    from aldy.common import AldyException
    from aldy.genotype import genotype
    main = util.run_main
    import yaml

    res = Res()
    route, name = case["route"], case["param"]
    bam = _res_path("NA10860.bam")
    scratch = util.scratch_dir()

    if route == "unknown":
        base = Profile("x").__dict__.copy()
        for v in ["1", 1, "abc", None]:
            p = Profile("x", **{name: v})
            res.check("unknown_ignored", p.__dict__ == base,
                      "unknown parameter changed the profile", given=v)
            p = Profile("x")
            p.update({name: v})
            res.check("unknown_ignored", p.__dict__ == base,
                      "unknown parameter changed the profile via update", given=v)
        got, err = _capture_run(lambda: main(
            ["genotype", bam, "--gene", "nudt15", "--profile", "illumina", "--param", f"{name}=5"]))
        res.check("unknown_ignored", len(got) == 1 and name not in got[0].__dict__
                  and got[0].__dict__.keys() == base.keys(),
                  "unknown --param was not ignored", err=repr(err))
        res.fp = util.fingerprint(case)
        res.nontrivial = True
        return res

    default = _params()[name]
    others = {k: v for k, v in _params().items() if k != name}
    seen = []

    def verdict(clause, prof, given, expected, what):
        if prof is None:
            res.check(clause, False, f"{what}: no profile reached the run", param=name,
                      given=repr(given))
            return
        actual = prof.__dict__.get(name, "<missing>")
        mech = None
        if (isinstance(default, bool) and expected is False and actual is True
                and given not in ("False", "0")):
            mech = "bool-parse"  # the (repaired) `not (v in ["False", "0"])` reading
        res.check(clause, _same(actual, expected),
                  f"{what}: {name}={given!r} read as {actual!r}, documented reading {expected!r}",
                  mech=mech, param=name, given=repr(given), actual=repr(actual),
                  expected=repr(expected), route=route)
        # nothing else moved (illumina profile sets cn_parsimony itself: compare against a baseline)
        seen.append((repr(given), repr(expected)))

    def side_effects(clause, prof, baseline, what):
        if prof is None or baseline is None:
            return
        moved = [k for k in others if prof.__dict__.get(k) != baseline.__dict__.get(k)]
        res.check(clause + "_isolated", not moved,
                  f"{what}: setting {name} also changed {moved}", param=name, moved=moved)

    if route in ("init", "update"):
        base = Profile("x")
        for given, expected in _spellings(default):
            if route == "init":
                p = Profile("x", **{name: given})
            else:
                p = Profile("x")
                ret = p.update({name: given})
                res.check("update_returns", ret == {name: p.__dict__[name]},
                          "update() did not return the parsed parameter", ret=repr(ret))
            verdict("value_api", p, given, expected, route)
            side_effects("value_api", p, base, route)
        for bad in _malformed(default):
            try:
                Profile("x", **{name: bad})
                ok = False
            except AldyException:
                ok = True
            except Exception as e:
                ok = False
                bad = f"{bad} -> {e!r}"
            res.check("malformed_rejected", ok, f"malformed {name}={bad!r} was accepted",
                      param=name, given=bad)

    elif route in ("genotype_api", "genotype_api_cn"):
        kw = {"cn_solution": ["1", "1"]} if route.endswith("_cn") else {}
        base, _ = _capture_run(lambda: genotype("nudt15", bam, "illumina", None, genome="hg19", **kw))
        for given, expected in _spellings(default):
            got, err = _capture_run(lambda: genotype(
                "nudt15", bam, "illumina", None, genome="hg19", **kw, **{name: given}))
            verdict("value_api", got[0] if got else None, given, expected, route)
            side_effects("value_api", got[0] if got else None, base[0] if base else None, route)
        for bad in _malformed(default):
            got, err = _capture_run(lambda: genotype(
                "nudt15", bam, "illumina", None, genome="hg19", **kw, **{name: bad}))
            res.check("malformed_rejected", not got and isinstance(err, AldyException),
                      f"malformed {name}={bad!r} was accepted by genotype()", err=repr(err))

    elif route in ("cli", "cli_dash"):
        shown = name.replace("_", "-") if route == "cli_dash" else name
        argv0 = ["genotype", bam, "--gene", "nudt15", "--profile", "illumina", "--genome", "hg19"]
        base, _ = _capture_run(lambda: main(argv0))
        for given, expected in _spellings(default, strings_only=True):
            got, err = _capture_run(lambda: main(argv0 + ["--param", f"{shown}={given}"]))
            verdict("value_cli", got[0] if got else None, given, expected, route)
            side_effects("value_cli", got[0] if got else None, base[0] if base else None, route)
        # several parameters in one --param and repeated --param
        sp = _spellings(default, strings_only=True)
        if sp:
            given, expected = sp[0]
            got, err = _capture_run(lambda: main(
                argv0 + ["--param", "gap=0.125", f"{shown}={given}", "--param", "cn_max=9"]))
            if name not in ("gap", "cn_max"):
                verdict("value_cli", got[0] if got else None, given, expected, route + "+multi")
                ok = bool(got) and _same(got[0].gap, 0.125) and _same(got[0].cn_max, 9)
                res.check("value_cli", ok, "companion --param values lost", route=route)
        for bad in _malformed(default):
            got, err = _capture_run(lambda: main(argv0 + ["--param", f"{shown}={bad}"]))
            res.check("malformed_rejected", not got,
                      f"malformed --param {shown}={bad!r} reached the run", err=repr(err))

    elif route == "cli_dump":
        dump = _res_path("INS.dump.tar.gz")
        argv0 = ["genotype", dump, "--gene", "cyp2d6", "--profile", "illumina"]
        sp = _spellings(default, strings_only=True)
        # one spelling per value is enough here (loading a dump is slower)
        picked = {}
        for given, expected in sp:
            picked.setdefault(repr(expected), (given, expected))
        for given, expected in picked.values():
            got, err = _capture_dump_run(lambda: main(argv0 + ["--param", f"{name}={given}"]))
            if got and name not in got[0].__dict__:
                # the archived profile predates this parameter: nothing to set
                res.count("skipped_absent_in_archived_profile")
                continue
            verdict("value_cli", got[0] if got else None, given, expected, route)

    elif route in ("options", "options_override"):
        gene = _gene()
        path = os.path.join(scratch, f"prof_{name}.yml")
        _write_profile(path, gene, None)
        base = Profile.load(gene, path)
        for given, expected in _spellings(default):
            if route == "options":
                _write_profile(path, gene, {name: given})
                p = Profile.load(gene, path)
                verdict("value_options", p, given, expected, route)
                side_effects("value_options", p, base, route)
            else:
                # explicit parameter wins over the options section
                other = _spellings(default)[-1][0] if _spellings(default)[-1][1] != expected \
                    else _spellings(default)[0][0]
                _write_profile(path, gene, {name: other, "cn_fit": 2.5})
                p = Profile.load(gene, path, **{name: given})
                verdict("value_options", p, given, expected, route)
                if name != "cn_fit":
                    res.check("value_options", _same(p.cn_fit, 2.5),
                              "options value lost when another parameter is explicit")
        for bad in _malformed(default):
            _write_profile(path, gene, {name: bad})
            try:
                Profile.load(gene, path)
                ok = False
            except AldyException:
                ok = True
            res.check("malformed_rejected", ok,
                      f"malformed options {name}={bad!r} accepted", given=bad)

    elif route in ("roundtrip", "roundtrip_cli"):
        gene = _gene()
        from aldy.common import GRange

        regions = {(gene.name, r, gi): rng for gi, gr in enumerate(gene.regions)
                   for r, rng in gr.items()}
        sp = _spellings(default, strings_only=(route == "roundtrip_cli"))
        if route == "roundtrip_cli":
            picked = {}
            for given, expected in sp:
                picked.setdefault(repr(expected), (given, expected))
            sp = list(picked.values())[:1] if case.get("tier") != "thorough" else list(picked.values())
        for given, expected in sp:
            path = os.path.join(scratch, f"rt_{name}.yml")
            if route == "roundtrip":
                d = Profile.get_sam_profile_data(
                    "<illumina>", regions=dict(regions), genome="hg19",
                    cn_region=GRange(gene.chr, 5000, 6000), params={name: given})
                text = yaml.dump(d, default_flow_style=None)
            else:
                import contextlib

                buf = io.StringIO()
                with contextlib.redirect_stdout(buf):
                    try:
                        main(["profile", "<illumina>", "--genome", "hg19", "--param",
                              f"{name}={given}"])
                    except SystemExit:
                        pass
                text = buf.getvalue()
            with open(path, "w") as f:
                f.write(text)
            try:
                p = Profile.load(gene, path)
            except Exception as e:
                res.check("roundtrip", False, f"written profile does not load: {e!r}",
                          param=name, given=repr(given), text=text[-400:])
                continue
            verdict("roundtrip", p, given, expected, route)
            y = yaml.safe_load(text) or {}
            res.check("roundtrip_options_only_given",
                      set((y.get("options") or {}).keys()) == {name},
                      "options section of the written profile does not hold exactly the given parameter",
                      options=repr(y.get("options")))

    res.fp = util.fingerprint([route, name, seen])
    res.nontrivial = any(e != repr(default) for _, e in seen)
    res.count("spellings", len(seen))
    if case.get("param") in ("phase", "gap") and route in ("cli", "options", "roundtrip"):
        res.sample = {"route": route, "param": name, "spellings": seen[:6]}
    return res
