"""C03 - gene-structure (copy number) calls are well-formed and optimal.

Monitors: wrapper at the solve_cn_model / estimate_cn boundary + lpmon (internal assignment of
every yielded solution) against the exhaustive structure evaluator ref/cnref.py.
"""
import math

from .. import lpmon, util
from ..gen import tables
from ..ref import cnref
from ..util import Res

ID = "C03"
RULE = (
    "model cases: (gene, build, planted structure of 0-5 configurations or random depths, noise on a "
    "0.01 grid, max copy number 3-6, gap, optional long-read fusion support); every reported "
    "structure and score is compared with exhaustive enumeration of all admissible structures; "
    "non-trivial = at least 3 admissible structures and non-zero noise or a non-default planted "
    "configuration; distinct by (gene, build, depth vector, parameters).  user/default cases: all "
    "configuration lists up to length 3 plus junk names; plumbing cases: estimate_cn arguments"
)
ASSUMPTIONS = [
    "ref/cnref.py restates the documented objective over structures (validated by seeded mutants)",
    "score comparisons at 1e-4; don't-care band of 1e-4 at the gap boundary",
    "cases whose within-gap enumeration exceeds 150 internal assignments are skipped (aldy's enumerator is recursive)",
]
MIN = {
    "quick": {"score_equals_reference": 150, "best_is_global_optimum": 100, "completeness": 100,
              "internal_wellformed": 150, "user_verbatim": 20, "unknown_rejected": 10,
              "default_two_copies": 10, "plumbing_args": 10, "region_cn": 150},
    "thorough": {"score_equals_reference": 3000, "best_is_global_optimum": 2000, "completeness": 2000,
                 "internal_wellformed": 3000, "user_verbatim": 20, "unknown_rejected": 10,
                 "default_two_copies": 10, "plumbing_args": 40, "region_cn": 3000},
}
CASE_TIMEOUT = {"quick": 600, "thorough": 1800}
TOL = 1e-4
GENES = ["toy", "toy", "toy", "cyp2a6", "cyp2d6", "gstm1", "gen", "gen"]
BATCH = 8


def plan(tier, seed):
    n = 320 if tier == "quick" else 8000
    cases = [{"kind": "model", "seed": seed, "batch": b, "n": BATCH} for b in range(n // BATCH)]
    for g in ["toy", "cyp2d6", "cyp2a6", "gstm1", "g6pd", "cyp2c19", "gen"]:
        cases.append({"kind": "user", "gene": g, "seed": seed})
    m = 24 if tier == "quick" else 200
    for k in range(m):
        cases.append({"kind": "plumbing", "seed": seed, "k": k})
    cases.append({"kind": "genotype_default", "seed": seed})
    cases.append({"kind": "vcf_male", "seed": seed})
    return cases


def _gene(name, genome, rng):
    if name == "gen":
        from ..gen import dbgen

        return dbgen.random_gene(rng, genome=genome, want_cn=True)
    if name.startswith("gen_"):
        # databases whose only structural alleles are right fusions / left fusions / the whole-gene deletion
        from ..gen import dbgen

        return dbgen.random_gene(rng, genome=genome, want_cn=True, structural=name[4:] + "_only")
    if name == "gennone":
        from ..gen import dbgen

        return dbgen.random_gene(rng, genome=genome, want_cn=False)
    return tables.gene(name, genome)


def _random_depths(g, rng):
    mode = rng.random()
    confs = list(g.cn_configs)
    dele = g.deletion_allele()
    planted = None
    if mode < 0.85:
        n = rng.choice([0, 1, 2, 2, 2, 3, 3, 4, 5])
        planted = []
        for i in range(n):
            if i < 2 and rng.random() < 0.45:
                planted.append(rng.choice([c for c in confs if c != dele] or confs))
            else:
                planted.append("1")
        rng.shuffle(planted[:2])
        comp = planted[:2] + ([dele] * (2 - len(planted[:2])) if dele else [])
        struct = comp + planted[2:]
        struct = [c for c in struct if c]
        d = {}
        for r in g.unique_regions:
            a = b = 0.0
            for i, c in enumerate(struct):
                cn = g.cn_configs[c].cn
                a += cn[0][r]
                if len(cn) > 1:
                    b += cn[1][r] if i < 2 else max(0, cn[1][r] - 1)
            d[r] = (a, b)
        extra_p = rng.choice([0, 0, 0, 1]) if len(g.regions) > 1 else 0
        d = {r: (a, b + extra_p) for r, (a, b) in d.items()}
    else:
        d = {r: (round(rng.uniform(0, 4), 2), round(rng.uniform(0, 4), 2) if len(g.regions) > 1 else 0.0)
             for r in g.unique_regions}
    amp = rng.choice([0, 0.05, 0.2, 0.5])
    out = {}
    for r, (a, b) in d.items():
        a2 = max(0.0, round(a + rng.uniform(-amp, amp), 2))
        b2 = max(0.0, round(b + rng.uniform(-amp, amp), 2)) if len(g.regions) > 1 else 0.0
        out[r] = (a2, b2)
    return out, planted, amp


def _check_model_case(res, g, gname, genome, rng):
    from aldy.cn import solve_cn_model
    from aldy.profile import Profile

    depths, planted, amp = _random_depths(g, rng)
    max_cn = rng.choice([3, 4, 5, 6])
    gap = rng.choice([0, 0, 0.1, 0.3])
    prof = Profile("test", gap=gap)
    if rng.random() < 0.2:
        prof.update({"cn_parsimony": rng.choice([1.0, 0.25]), "cn_fusion_left": rng.choice([0.5, 1.0, 0.0])})
    fs = None
    fusions = [n for n, c in g.cn_configs.items() if "FUSION" in str(c.kind)]
    if fusions and rng.random() < 0.3:
        thr = 1 / (2 * max_cn)
        fs = {n: rng.choice([0.0, thr, thr - 1e-9, thr + 0.01, 0.5, 1.0]) for n in fusions
              if rng.random() < 0.8}
        if not fs:
            fs = None
    configs = g.cn_configs
    best, allv = cnref.table(g, prof, configs, max_cn, depths, fs)
    gbest = min(best.values()) if best else None
    desc = {"gene": gname, "genome": genome, "depths": depths, "max_cn": max_cn, "gap": gap,
            "fusion_support": fs, "planted": planted}
    if gbest is not None:
        within = sum(1 for _, sc, _ in allv if sc <= (1 + gap) * gbest + 1e-5)
        if within > 150:
            res.count("skipped_enumeration_size")
            return None
    lpmon.reset()
    sols = solve_cn_model(g, prof, configs, max_cn, depths, "any", None, fs)
    rec = lpmon.RECORDS[-1] if lpmon.RECORDS else None
    if rec is not None:
        for p in rec.problems:
            res.check("lp_" + p.clause, False, p.what, **p.w)
    reported = {}
    for s in sols:
        ms = tuple(sorted(s.solution.elements()))
        res.check("no_repeat", ms not in reported, "structure reported twice", structure=ms, **desc)
        reported[ms] = s.score
        # region_cn = sum of configuration vectors
        exp = [{r: 0 for r in g.regions[0]} for _ in g.cn_configs["1"].cn]
        for c in s.solution.elements():
            for gi, gg in enumerate(g.cn_configs[c].cn):
                for r in gg:
                    exp[gi][r] += gg[r]
        res.check("region_cn", s.region_cn == exp, "region copy numbers are not the sum of the configuration vectors",
                  structure=ms, got=s.region_cn, expected=exp)
        if ms not in best:
            res.check("admissible", False, "reported structure is not admissible", structure=ms, **desc)
            continue
        res.check("admissible", True)
        res.check("score_equals_reference", abs(best[ms] - s.score) <= TOL * max(1, abs(s.score)),
                  "reported score differs from the documented objective of the best explanation of the structure",
                  structure=ms, reported=s.score, reference=best[ms], **desc)
    if gbest is None:
        res.check("best_is_global_optimum", not sols, "no admissible structure but something was reported", **desc)
        return desc
    res.check("nonempty", bool(sols), "admissible structures exist but nothing was reported", **desc)
    if not sols:
        return desc
    rbest = min(reported.values())
    res.check("best_is_global_optimum", abs(rbest - gbest) <= TOL * max(1, abs(gbest)),
              "best reported score is not the minimum over all admissible structures",
              reported=rbest, reference=gbest, **desc)
    ub = (1 + gap) * gbest
    for ms, sc in reported.items():
        res.check("within_gap", sc <= ub + 1e-5 + TOL, "reported structure outside the gap",
                  structure=ms, score=sc, bound=ub, **desc)
    # completeness, containment form
    import collections

    rep_c = [(collections.Counter(ms), sc) for ms, sc in reported.items()]
    for ms, sc in best.items():
        if sc >= ub - TOL or ms in reported:
            continue
        c = collections.Counter(ms)
        ok = any(all(c[k] >= v for k, v in rc.items()) and rs <= sc + TOL for rc, rs in rep_c)
        res.check("completeness", ok,
                  "admissible within-gap structure neither reported nor containing a reported structure that scores no worse",
                  structure=ms, score=sc, bound=ub, reported={str(k): v for k, v in reported.items()}, **desc)
    res.seen("completeness")
    # internal assignment of every yielded solution (from the LP monitor)
    dele = g.deletion_allele()
    if rec is not None and rec.traces:
        for y in rec.traces[0].yields:
            names = [n for n in y["names"] if n.startswith("CN_")]
            comp = [n for n in names if n.endswith("_0") or n.endswith("_m1")]
            res.check("internal_wellformed", len(comp) == 2,
                      "internal assignment does not have exactly two complete configurations",
                      active=names, **desc)
            if dele:
                d2 = lpmon_name(f"CN_{dele}_-1")
                if d2 in names:
                    res.check("internal_wellformed", set(names) == {lpmon_name(f"CN_{dele}_0"), d2},
                              "double deletion combined with another configuration", active=names, **desc)
    for ms in reported:
        cnt = collections.Counter(ms)
        for c, k in cnt.items():
            if str(g.cn_configs[c].kind).endswith("DEFAULT"):
                continue
            res.check("nondefault_at_most_twice", k <= 2,
                      "fusion/deletion configuration used more than twice", structure=ms, **desc)
    nontrivial = len(best) >= 3 and (amp > 0 or (planted and any(c != "1" for c in planted)))
    return desc if nontrivial else None


def lpmon_name(s):
    from aldy.lpinterface import escape_name

    return escape_name(s)


def _run_user(case, res):
    import itertools

    from aldy.cn import estimate_cn, _parse_user_solution
    from aldy.common import AldyException
    from aldy.profile import Profile

    rng = util.rng_for("c03user", case["seed"], case["gene"])
    for genome in ("hg19", "hg38"):
        g = _gene(case["gene"], genome, rng)
        names = list(g.cn_configs)
        lists = []
        for k in (1, 2, 3):
            combos = list(itertools.product(names, repeat=k))
            rng.shuffle(combos)
            lists += combos[:30]
        for lst in lists:
            lst = list(lst)
            prof = Profile("user_provided", cn_solution=lst)
            out = estimate_cn(g, prof, None, "any")
            import collections

            ok = (len(out) == 1 and out[0].solution == collections.Counter(lst) and out[0].score == 0)
            res.check("user_verbatim", ok, "user-supplied structure not used verbatim", given=lst,
                      got=[dict(o.solution) for o in out])
        for junk in (["nope"], ["1", "1x"], [names[-1].upper() + "_"], ["1", ""], ["*1"]):
            if all(j in g.cn_configs for j in junk):
                continue
            try:
                out = estimate_cn(g, Profile("user_provided", cn_solution=junk), None, "any")
                ok = False
            except AldyException:
                ok = True
            except Exception as e:
                ok = False
                junk = junk + [repr(e)]
            res.check("unknown_rejected", ok, "unknown configuration name accepted", given=junk)
        if not g.do_copy_number:
            for male in (False, True):
                prof = Profile("x", male=male)
                out = estimate_cn(g, prof, None, "any")
                exp = 1 if (male and g.chr in ("X", "Y")) else 2
                ok = len(out) == 1 and dict(out[0].solution) == {"1": exp}
                res.check("default_two_copies", ok, "gene without structural alleles not called as default copies",
                          gene=g.name, male=male, got=[dict(o.solution) for o in out], expected=exp)


class _FakeCov:
    def __init__(self, n):
        self.n = n

    def average_coverage(self):
        return self.n


def _run_genotype_default(case, res):
    """genotype(): exome profile / male plumbing, observed at estimate_cn."""
    import os

    import aldy.cn
    import aldy.sam
    from aldy.genotype import genotype

    bam = os.path.join(util.REPO, "aldy/tests/resources/NA10860.bam")

    class Stop(Exception):
        pass

    got = []
    orig_s, orig_c = aldy.sam.Sample, aldy.cn.estimate_cn

    class Stub:
        def __init__(self, gene, profile, path, *a, **k):
            self.profile = profile
            self.gene = gene
            self.name = "stub"
            self.coverage = _FakeCov(30.0)
            self.is_long_read = False

    def cn_wrap(gene, profile, coverage, solver, debug=None):
        try:
            # (no evidence is handed over: where copy-number calling is unavailable none is needed)
            out = orig_c(gene, profile, None, solver, debug)
        except (AssertionError, AttributeError, TypeError) as e:
            out = []  # the stage tried to use depth evidence: copy-number calling was not switched off
            got.append((gene, profile, out, repr(e)))
            raise Stop()
        got.append((gene, profile, out))
        raise Stop()

    aldy.sam.Sample = Stub
    aldy.cn.estimate_cn = cn_wrap
    try:
        for gname, chrx in (("g6pd", True), ("cyp2d6", False), ("cyp2c19", False), ("gstm1", False)):
            for profile_name in ("exome", "wxs", "wes"):
                for male in (None, "1", True, "false"):
                    del got[:]
                    kw = {} if male is None else {"male": male}
                    try:
                        genotype(gname, bam, profile_name, None, genome="hg19", **kw)
                    except Stop:
                        pass
                    is_male = male in ("1", True)
                    exp = 1 if (is_male and chrx) else 2
                    ok = bool(got) and len(got[0][2]) == 1 and dict(got[0][2][0].solution) == {"1": exp}
                    res.check("default_two_copies", ok,
                              "exome profile: structure is not the default copies",
                              gene=gname, profile=profile_name, male=repr(male), expected=exp,
                              got=[dict(o.solution) for o in got[0][2]] if got else None)
    finally:
        aldy.sam.Sample = orig_s
        aldy.cn.estimate_cn = orig_c


def _run_plumbing(case, res):
    """estimate_cn hands the right arguments to the model and guards low depth."""
    import aldy.cn
    from aldy.common import AldyException
    from aldy.coverage import Coverage
    from aldy.profile import Profile
    from aldy.sam import Sample

    rng = util.rng_for("c03plumb", case["seed"], case["k"])
    gname = ["toy", "cyp2d6", "cyp2a6", "gstm1", "gen", "gen_right", "gen_left", "gen_deletion", "gennone",
             "gen_right"][case["k"] % 10]
    g = _gene(gname, rng.choice(["hg19", "hg38"]), rng)
    if gname == "gennone":
        # no structural allele at all: copy-number calling is unavailable, two default copies, no model
        cov0 = Coverage(g, Profile("test"), None, {}, None, {})
        cov0._region_coverage = {(gi, r): 3.0 for gi, gr in enumerate(g.regions) for r in gr}
        called = []
        orig0 = aldy.cn.solve_cn_model
        aldy.cn.solve_cn_model = lambda *a, **k: called.append(1) or orig0(*a, **k)
        try:
            out0 = aldy.cn.estimate_cn(g, Profile("test"), cov0, "any")
        finally:
            aldy.cn.solve_cn_model = orig0
        res.check("defaults_when_unavailable", not called and [dict(o.solution) for o in out0] == [{"1": 2}],
                  "gene without structural alleles is not given exactly two default copies",
                  got=[dict(o.solution) for o in out0], model_calls=len(called))
        return
    prof = Profile("test", gap=rng.choice([0, 0.1]))
    cov = Coverage(g, prof, None, {}, None, {})
    low = rng.random() < 0.3
    rc = {}
    for gi, gr in enumerate(g.regions):
        for r in gr:
            rc[gi, r] = round(rng.uniform(0, 0.12), 3) if low else round(rng.uniform(0.5, 3.6), 2)
    cov._region_coverage = dict(rc)
    cov.sam = Sample.__new__(Sample)
    fc = {}
    if rng.random() < 0.5:
        for n, c in g.cn_configs.items():
            if "FUSION" in str(c.kind):
                b = rng.choice([0, 3, 10])
                fc[n] = [rng.randint(0, b) if b else 0, b]
    cov.sam._fusion_counter = fc
    captured = []
    orig = aldy.cn.solve_cn_model

    def wrap(gene, profile, cn_configs, max_cn, region_coverage, solver, debug=None, fusion_support=None):
        captured.append((cn_configs, max_cn, dict(region_coverage), fusion_support))
        return orig(gene, profile, cn_configs, max_cn, region_coverage, solver, debug, fusion_support)

    aldy.cn.solve_cn_model = wrap
    try:
        try:
            out = aldy.cn.estimate_cn(g, prof, cov, "any")
            err = None
        except AldyException as e:
            out, err = None, e
    finally:
        aldy.cn.solve_cn_model = orig
    total = sum(rc[0, r] + (rc[1, r] if len(g.regions) > 1 else 0.0) for r in g.unique_regions)
    min_cov = min(sum(sum(v.values()) for v in c.cn) for c in g.cn_configs.values())
    if total < min_cov / 2.0:
        res.check("low_depth_guard", err is not None and not captured,
                  "depth below half of the smallest configuration was not rejected", total=total,
                  min_cov=min_cov)
        return
    res.check("low_depth_guard", err is None, "adequate depth rejected", total=total, err=repr(err))
    if not captured:
        res.check("plumbing_args", False, "solve_cn_model not reached although the database defines structural "
                  "alleles and the depth is adequate", db=gname,
                  configurations={n: str(c.kind) for n, c in g.cn_configs.items()})
        return
    cfgs, max_cn, region_cov, fsup = captured[0]
    exp_max = 1 + max(math.ceil(v) for v in rc.values())
    exp_rc = {r: (rc[0, r], rc[1, r] if len(g.regions) > 1 else 0.0) for r in g.unique_regions}
    res.check("plumbing_args", max_cn == exp_max, "maximum copy number is not 1 + ceil(max depth)",
              got=max_cn, expected=exp_max)
    res.check("plumbing_args", region_cov == exp_rc, "region depths handed to the model differ",
              got=region_cov, expected=exp_rc)
    exp_fs = {n: (a / b if b else 0.0) for n, (a, b) in fc.items()} if fc else None
    res.check("plumbing_args", fsup == exp_fs, "fusion support handed to the model differs",
              got=fsup, expected=exp_fs)
    res.check("plumbing_args", set(cfgs) <= set(g.cn_configs) and "1" in cfgs,
              "candidate configurations are not a subset of the catalogue's", got=list(cfgs))
    # the catalogue's configuration table is not modified by the stage
    res.check("catalogue_untouched", all(g.cn_configs[k].cn == tables.gene(gname, g.genome).cn_configs[k].cn
                                         for k in g.cn_configs) if not gname.startswith("gen") else True,
              "estimate_cn modified the catalogue's configurations")


def _run_vcf_male(case, res):
    """VCF input: copy-number calling is unavailable; a male sample's X-linked gene has one copy."""
    import os

    import aldy.cn
    from aldy.genotype import genotype

    from ..gen import vcfgen

    got = []
    orig = aldy.cn.estimate_cn

    class Stop(Exception):
        pass

    def wrap(gene, profile, coverage, solver, debug=None):
        out = orig(gene, profile, coverage, solver, debug)
        got.append(out)
        raise Stop()

    aldy.cn.estimate_cn = wrap
    try:
        for gname, genome in (("g6pd", "hg19"), ("g6pd", "hg38"), ("cyp2c19", "hg19")):
            g = tables.gene(gname, genome)
            p = min(g.chr_to_ref) + 50
            vcf = vcfgen.write_vcf(os.path.join(util.scratch_dir(), f"male_{gname}.vcf"), g.chr,
                                   max(g.chr_to_ref) + 1000, [(p + 1, g[p], ["A" if g[p] != "A" else "C"], ["0/0"])])
            for male in (False, True, "1"):
                del got[:]
                try:
                    genotype(gname, vcf, None, None, genome=genome, male=male)
                except Stop:
                    pass
                is_male = male in (True, "1")
                exp = 1 if (is_male and g.chr in ("X", "Y")) else 2
                ok = bool(got) and len(got[0]) == 1 and dict(got[0][0].solution) == {"1": exp}
                res.check("default_two_copies", ok,
                          "VCF input: structure is not the default copies (one for a male sample's X-linked gene)",
                          mech="vcf-male-x-two-copies" if (is_male and g.chr in ("X", "Y") and got
                                                           and dict(got[0][0].solution) == {"1": 2}) else None,
                          gene=gname, genome=genome, male=repr(male), expected=exp,
                          got=[dict(o.solution) for o in got[0]] if got else None)
    finally:
        aldy.cn.estimate_cn = orig


def run(case):
    util.import_aldy()
    lpmon.install()
    res = Res()
    kind = case["kind"]
    if kind == "model":
        fps = []
        for k in range(case["n"]):
            rng = util.rng_for("c03", case["seed"], case["batch"], k)
            gname = rng.choice(GENES)
            genome = rng.choice(["hg19", "hg38"])
            g = _gene(gname, genome, rng)
            if not g.do_copy_number:
                continue
            desc = _check_model_case(res, g, gname, genome, rng)
            res.count("model_cases")
            if desc:
                fps.append(util.fingerprint(desc))
                if res.sample is None and case["batch"] < 2:
                    res.sample = desc
        res.fp = util.fingerprint(fps)
        res.nontrivial = bool(fps)
        res.counters["distinct_nontrivial_models"] = len(set(fps))
    elif kind == "user":
        _run_user(case, res)
        res.fp, res.nontrivial = util.fingerprint(case), True
    elif kind == "plumbing":
        _run_plumbing(case, res)
        res.fp, res.nontrivial = util.fingerprint(case), True
    elif kind == "genotype_default":
        _run_genotype_default(case, res)
        res.fp, res.nontrivial = "genotype_default", True
    elif kind == "vcf_male":
        _run_vcf_male(case, res)
        res.fp, res.nontrivial = "vcf_male", True
    return res


def summarize(results):
    return {"distinct_nontrivial_models": sum(r["counters"].get("distinct_nontrivial_models", 0) for r in results)}
