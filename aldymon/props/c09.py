"""C09 - the star-allele catalogue is a consistent, build-independent partition.

Monitor: after Gene(...) the loaded catalogue is compared with an independent model of the database
rebuilt from the YAML (ref/catalogue.py): reachability and grouping of every database allele,
uniqueness of (structure, core set), functional / silent split, distinct minors, existing
configurations, fusion partials = parent's variants in retained regions, and equality of the
catalogue between the two genome builds.
"""
import collections
import os

from .. import util
from ..gen import dbgen, tables
from ..ref import catalogue
from ..util import Res

ID = "C09"
RULE = (
    "shipped: the 38 databases x {hg19, hg38} (exhaustive); generated: random databases with "
    "duplicate variant sets, name / label collisions, fusions with and without own core variants, "
    "custom partial deletions, zero-length regions, both strands; one evaluation = one database "
    "allele (reachability / grouping / content) or one pair of major alleles (uniqueness); "
    "non-trivial = a database with >= 2 major alleles; distinct by (database, build)"
)
ASSUMPTIONS = [
    "function-altering = the variant's first occurrence in the database carries an effect annotation",
    "configuration vectors are compared between builds on regions that are non-empty in both builds",
    "variants that cannot be mapped in a build (alignment gap) are compared between builds only if mapped in both",
]
EXHAUSTIVE = True
MIN = {
    "quick": {"reachable_one_major": 3000, "content_as_written": 3000, "majors_distinct": 3000,
              "core_is_functional": 3000, "minors_distinct": 500, "config_exists": 3000,
              "partial_variants": 300, "build_independent": 45},
    "thorough": {"reachable_one_major": 8000, "content_as_written": 8000, "majors_distinct": 8000,
                 "core_is_functional": 8000, "minors_distinct": 1500, "config_exists": 8000,
                 "partial_variants": 3000, "build_independent": 300},
}
CASE_TIMEOUT = {"quick": 900, "thorough": 3000}


def plan(tier, seed):
    util.import_aldy()
    cases = [{"kind": "shipped", "gene": g} for g in tables.shipped_gene_names()]
    n = 320 if tier == "quick" else 3000
    cases += [{"kind": "gen", "seed": seed, "k": k} for k in range(n)]
    cases += [{"kind": "toymut", "seed": seed, "k": k} for k in range(40 if tier == "quick" else 400)]
    return cases


def written_of(g, muts):
    """Loaded variants -> written (pos1, op) notation."""
    return {(g.mutations[m][3] + 1, g.mutations[m][4]) for m in muts}


def check_catalogue(res, g, model, desc):
    dele = None
    majors = g.alleles
    # ---- every database allele: reachability, single major, content
    for nm, rec in model.alleles.items():
        ad = dict(desc, allele=nm)
        kept = [(p, o) for p, o in rec["variants"] if model.mappable(p, o)
                and model.region_of(model.r2c[model.key_refpos(p, o)]) is not None]
        core_w = {v for v in kept if model.functional(*v)}
        bare_left = rec["struct"] is not None and rec["struct"][0] == "left" and not core_w
        if rec["struct"] and rec["struct"][0] == "deletion":
            dele = nm
        hit = g.get_allele(nm)
        holders = [an for an, a in majors.items() if (g.removed.get(nm, nm)) in a.minors]
        if bare_left:
            res.count("bare_left_fusions")
            # its place is taken by partial alleles of the same structure
            continue
        res.check("reachable_one_major", hit is not None and len(holders) == 1,
                  "database allele is not reachable by name under exactly one major allele",
                  holders=holders, **ad)
        if hit is None:
            continue
        ma, mi = hit
        got_core = written_of(g, ma.func_muts)
        got_all = got_core | written_of(g, mi.neutral_muts)
        res.check("content_as_written", got_all == set(kept),
                  "catalogued variant content differs from the database entry",
                  surplus=sorted(got_all - set(kept)), lacking=sorted(set(kept) - got_all), **ad)
        res.check("core_is_functional", got_core == core_w,
                  "core variants are not exactly the function-altering ones of the entry",
                  core=sorted(got_core), functional=sorted(core_w), **ad)
    # ---- majors: functional split, config exists, pairwise distinct
    keys = collections.defaultdict(list)
    for an, a in majors.items():
        ad = dict(desc, major=an)
        res.check("core_is_functional", all(g.is_functional(m) for m in a.func_muts),
                  "a core variant is not function-altering", **ad)
        for mn, mi in a.minors.items():
            res.check("silent_is_silent", not any(g.is_functional(m) for m in mi.neutral_muts),
                      "a minor-only variant is function-altering", minor=mn, **ad)
            res.check("silent_is_silent", not (set(mi.neutral_muts) & set(a.func_muts)),
                      "minor-only variants overlap the core set", minor=mn, **ad)
        cfg = g.cn_configs.get(a.cn_config)
        res.check("config_exists", cfg is not None and an in cfg.alleles and a.name == an,
                  "allele's structural configuration does not exist or does not list the allele",
                  config=a.cn_config, **ad)
        if cfg is not None:
            keys[(cfg.vector, tuple(sorted(a.func_muts)))].append(an)
        sets = collections.Counter(tuple(sorted(mi.neutral_muts)) for mi in a.minors.values())
        res.check("minors_distinct", all(v == 1 for v in sets.values()),
                  "two minor alleles of one major allele have the same variant set",
                  minors=[mn for mn, mi in a.minors.items() if sets[tuple(sorted(mi.neutral_muts))] > 1], **ad)
        res.check("minor_names_keyed", all(mi.name == mn for mn, mi in a.minors.items()),
                  "minor allele stored under a different name", **ad)
    for k, names in keys.items():
        mech = None
        if len(names) > 1:
            partials = [n for n in names if "#" in n]
            defined = [n for n in names if "#" not in n]
            fusion_cfgs = {majors[n].cn_config for n in names}
            if len(partials) == len(names) - 1 and len(defined) == 1 and len(fusion_cfgs) == 1 and \
                    str(g.cn_configs[majors[defined[0]].cn_config].kind).endswith("LEFT_FUSION") and \
                    all(p.split("#")[0] == majors[defined[0]].cn_config for p in partials):
                mech = "partial-duplicates-defined-fusion"
        res.check("majors_distinct", len(names) == 1,
                  "two major alleles have the same structure and core-variant set", mech=mech, majors=names, **desc)
    for cn, cfg in g.cn_configs.items():
        for an in cfg.alleles:
            res.check("config_lists_existing_alleles", an in majors and majors[an].cn_config == cn,
                      "a configuration lists an allele that does not exist or belongs elsewhere",
                      config=cn, allele=an, **desc)
        for gi, regs in enumerate(cfg.cn):
            for r, v in regs.items():
                a0, b0 = model.regions[gi][r]
                if b0 - a0 <= 0:
                    res.check("zero_length_region_zero", v == 0,
                              "zero-length region has a non-zero copy number", config=cn, region=r, **desc)
    # ---- position -> region lookup at every region boundary, and the region copy test
    for gi, regs in enumerate(model.regions):
        for r, (a0, b0) in regs.items():
            for c in (a0 - 1, a0, b0 - 1, b0):
                owners = [(gj, rr) for gj, rg in enumerate(model.regions) for rr, (x, y) in rg.items() if x <= c < y]
                if len(owners) > 1:
                    res.count("positions_in_overlapping_regions")  # e.g. CYP2D6 'up' / CYP2D7 'rep'
                    continue
                exp = model.region_of(c)
                got = g.region_at(c)
                res.check("region_lookup", (got is None and exp is None) or (got is not None and tuple(got) == exp),
                          "position -> (gene, region) lookup differs from the region table",
                          position=c, got=got, expected=exp, **desc)
    for an, a in list(majors.items())[:40]:
        cfg = g.cn_configs.get(a.cn_config)
        if cfg is None:
            continue
        for r, (a0, b0) in list(model.regions[0].items()):
            if b0 - a0 <= 0:
                continue
            for c in (a0, b0 - 1):
                if sum(1 for rg in model.regions for (x, y) in rg.values() if x <= c < y) > 1:
                    continue
                res.check("region_copy_test", g.has_coverage(an, c) == (cfg.cn[0][r] > 0),
                          "region copy test disagrees with the allele's configuration",
                          allele=an, position=c, region=r, **desc)
    # ---- configuration vectors from the structural markers
    order = list(model.regions[0])
    rank = {r: i for i, r in enumerate(order)}
    res.check("region_order", list(g.regions[0]) == order and all(list(rg) == order for rg in g.regions),
              "region order does not follow the gene's strand", got=list(g.regions[0]), expected=order, **desc)
    for nm, rec in model.alleles.items():
        if not rec["struct"]:
            continue
        kind, arg = rec["struct"]
        exp0 = exp1 = None
        if kind == "left":
            exp0 = {r: int(rank[r] >= rank[arg]) for r in order}
            exp1 = {r: int(rank[r] < rank[arg]) for r in order}
        elif kind == "right":
            exp0 = {r: int(rank[r] < rank[arg]) for r in order}
            exp1 = {r: 1 + int(rank[r] >= rank[arg]) for r in order}
        elif kind == "deletion":
            exp0 = {r: 0 for r in order}
            exp1 = {r: 1 for r in order}
        elif kind == "custom":
            exp0 = {r: int(r not in arg) for r in order}
            exp1 = {r: 1 for r in order}
        for gi, e in ((0, exp0), (1, exp1)):
            if gi >= len(model.regions):
                continue
            for r in order:
                a0, b0 = model.regions[gi][r]
                if b0 - a0 <= 0:
                    e[r] = 0
        # the allele (or, for a bare left fusion, its partials) must sit in a configuration with this vector
        cands = [an for an in majors if an == g.get_allele(nm)[0].name] if g.get_allele(nm) else \
            [an for an in majors if an.split("#")[0] == nm.split(".")[0] or an.startswith(nm.split(".")[0] + "#")]
        for an in cands[:1]:
            cfg = g.cn_configs[majors[an].cn_config]
            ok = cfg.cn[0] == exp0 and (len(cfg.cn) < 2 or cfg.cn[1] == exp1)
            res.check("config_vector", ok, "structural configuration differs from the database's fusion / deletion entry",
                      allele=nm, kind=kind, arg=arg, got=cfg.vector, **desc)
    # ---- partial alleles of left fusions
    for an, a in majors.items():
        if "#" not in an:
            continue
        f, parent = an.split("#", 1)
        if parent not in majors or f not in g.cn_configs:
            res.check("partial_variants", False, "partial allele without parent allele / fusion", partial=an, **desc)
            continue
        cfg = g.cn_configs[f]

        def retained(m):
            # (a RefSeq may span the pseudogene copy as well: a variant located there is retained iff the fused
            # structure has that part of the pseudogene)
            hit = model.region_of(m.pos, 0) or model.region_of(m.pos)
            return hit is not None and cfg.cn[hit[0]][hit[1]] > 0

        exp = {m for m in majors[parent].func_muts if retained(m)}
        res.check("partial_variants", set(a.func_muts) == exp and a.cn_config == f,
                  "fusion partial does not carry exactly the parent's core variants in retained regions",
                  partial=an, got=sorted(map(str, a.func_muts)), expected=sorted(map(str, exp)), **desc)
        # its minors: images of the minors of all parents that collapse onto this partial
        parents = [p for p, pa in majors.items() if pa.cn_config == "1"
                   and {m for m in pa.func_muts if retained(m)} == exp]
        images = set()
        for p in parents:
            for mn, mi in majors[p].minors.items():
                images.add(tuple(sorted(m for m in mi.neutral_muts if retained(m))))
        got = {tuple(sorted(mi.neutral_muts)) for mi in a.minors.values()}
        res.check("partial_variants", got == images,
                  "minor alleles of a fusion partial are not the retained parts of the parents' minor alleles",
                  partial=an, parents=parents, **desc)
    return len(majors)


def signature(g, model):
    """Build-independent view of the catalogue (RefSeq notation)."""
    out = {}
    for an, a in g.alleles.items():
        out[an] = {
            "config": a.cn_config,
            "core": sorted(g.get_refseq(m) for m in a.func_muts),
            "minors": {mn: sorted(g.get_refseq(m) for m in mi.neutral_muts) for mn, mi in a.minors.items()},
        }
    cfgs = {}
    for cn, c in g.cn_configs.items():
        cfgs[cn] = {"kind": str(c.kind), "alleles": sorted(c.alleles),
                    "cn": [dict(x) for x in c.cn]}
    return out, cfgs, dict(g.removed), sorted(map(tuple, g.common_tandems))


def boundary_insertions(m):
    """Written insertions whose two flanking RefSeq bases lie in different regions: their key position (the
    genome base left of the insertion) falls into one region on '+' and into the other on '-'."""
    out = []
    for rec in m.alleles.values():
        for p, o in rec["variants"]:
            if o.startswith("ins") and (p - 1) in m.r2c and p in m.r2c:
                a, b = m.region_of(m.r2c[p - 1], 0), m.region_of(m.r2c[p], 0)
                if a != b:
                    out.append(f"{p}{o}")
    return sorted(set(out))


def check_builds(res, g1, m1, g2, m2, desc):
    s1, c1, r1, t1 = signature(g1, m1)
    s2, c2, r2, t2 = signature(g2, m2)
    bmech = None
    if m1.strand != m2.strand and boundary_insertions(m1):
        bmech = "boundary-insertion-region-depends-on-strand"
        desc = dict(desc, boundary_insertions=boundary_insertions(m1))
    # variants unmappable in one build are removed from both sides
    drop = set()
    for m, g in ((m1, g1), (m2, g2)):
        for rec in m.alleles.values():
            for p, o in rec["variants"]:
                if not m.mappable(p, o):
                    drop.add(f"{p}{o}")

    def strip(s):
        return {an: {"config": a["config"], "core": [v for v in a["core"] if v not in drop],
                     "minors": {mn: [v for v in vs if v not in drop] for mn, vs in a["minors"].items()}}
                for an, a in s.items()}

    if drop:
        res.count("variants_unmappable_in_a_build", len(drop))
    res.check("build_independent", set(s1) == set(s2), "major allele names differ between builds",
              mech=bmech, only_first=sorted(set(s1) - set(s2)), only_second=sorted(set(s2) - set(s1)), **desc)
    if not drop:
        diff = [an for an in s1 if an in s2 and s1[an] != s2[an]]
        res.check("build_independent", not diff,
                  "grouping / variant content / configuration of major alleles differs between builds",
                  mech=bmech, alleles=diff[:5], first={a: s1[a] for a in diff[:2]}, second={a: s2[a] for a in diff[:2]}, **desc)
        res.check("build_independent", r1 == r2, "alias table differs between builds", **desc)
    else:
        a1, a2 = strip(s1), strip(s2)
        diff = [an for an in a1 if an in a2 and (a1[an]["config"] != a2[an]["config"])]
        res.check("build_independent", not diff, "configuration of alleles differs between builds",
                  alleles=diff[:5], **desc)
    res.check("build_independent", set(c1) == set(c2) and all(
        c1[k]["kind"] == c2[k]["kind"] and c1[k]["alleles"] == c2[k]["alleles"] for k in c1 if k in c2),
        "structural configurations (names, kinds, alleles) differ between builds", mech=bmech, **desc)
    # vectors on regions non-empty in both builds
    for k in c1:
        if k not in c2:
            continue
        for gi in range(min(len(c1[k]["cn"]), len(c2[k]["cn"]))):
            for r in c1[k]["cn"][gi]:
                e1 = m1.regions[gi][r][1] - m1.regions[gi][r][0] > 0
                e2 = m2.regions[gi][r][1] - m2.regions[gi][r][0] > 0
                if e1 and e2:
                    res.check("build_independent_vectors", c1[k]["cn"][gi][r] == c2[k]["cn"][gi].get(r),
                              "configuration vector differs between builds on a region present in both",
                              config=k, region=r, **desc)
    res.check("build_independent", t1 == t2, "tandem list differs between builds", **desc)


def toy_mutant(rng):
    """The test-suite's toy database (its RefSeq spans gene *and* pseudogene copy, opposite strands per build) with
    a random allele table: substitutions anywhere on the RefSeq - also inside the pseudogene copy -, both fusions,
    the deletion."""
    import yaml

    with open(os.path.join(util.REPO, "aldy/tests/resources/toy.yml")) as f:
        y = yaml.safe_load(f)
    seq = "".join(y["reference"]["seq"].split())
    alleles = {"TOY*1.001": {"label": "TOY*1", "activity": "normal function", "mutations": []}}
    used = set()

    def snp(lo, hi, functional):
        for _ in range(50):
            p = rng.randint(lo, hi)
            if any(abs(p - q) < 3 for q in used):
                continue
            used.add(p)
            b = seq[p - 1]
            alt = rng.choice([x for x in "ACGT" if x != b])
            return [p, f"{b}>{alt}", "-", rng.choice(["functional", "P34S"])] if functional else [p, f"{b}>{alt}"]
        return None

    pool_f = [v for v in (snp(12, 98, True), snp(12, 98, True), snp(104, 196, True), snp(104, 196, True),
                          snp(104, 196, True)) if v]
    pool_s = [v for v in (snp(12, 98, False), snp(12, 98, False), snp(104, 196, False), snp(104, 196, False)) if v]
    num = 2
    for _ in range(rng.randint(2, 5)):
        core = rng.sample(pool_f, min(len(pool_f), rng.choice([1, 1, 2])))
        for j in range(rng.choice([1, 2, 3])):
            sil = rng.sample(pool_s, min(len(pool_s), rng.choice([0, 1, 2]))) if j else []
            alleles[f"TOY*{num}.{j + 1:03d}"] = {"mutations": [list(m) for m in core + sil]}
        alleles[f"TOY*{num}.001"]["label"] = f"TOY*{num}"
        num += 1
    for j in range(rng.choice([0, 1, 2])):
        sil = rng.sample(pool_s, min(len(pool_s), rng.choice([1, 2])))
        alleles[f"TOY*1.{j + 2:03d}"] = {"mutations": [list(m) for m in sil]}
    alleles["TOY*40.001"] = {"label": "TOY*40", "mutations": [["TOYP", rng.choice(["i2-", "e2-", "e3-"])]]}
    r5 = [["TOYP", rng.choice(["e2+", "i2+"])]]
    if pool_f and rng.random() < 0.5:
        r5.append(list(rng.choice(pool_f)))
    alleles["TOY*41.001"] = {"label": "TOY*41", "mutations": r5}
    alleles["TOY*42.001"] = {"label": "TOY*42DEL", "mutations": [["TOY", "deletion"]]}
    y["alleles"] = alleles
    y["structure"]["tandems"] = [["2", "1"]]
    return yaml.dump(y, default_flow_style=None, width=100)


def run(case):
    util.import_aldy()
    res = Res()
    if case["kind"] == "toymut":
        from aldy.gene import Gene

        rng = util.rng_for("c09t", case["seed"], case["k"])
        text = toy_mutant(rng)
        path = os.path.join(util.scratch_dir(), f"toymut_{case['k']}.yml")
        with open(path, "w") as f:
            f.write(text)
        loaded = {}
        for genome in ("hg19", "hg38"):
            model = catalogue.YamlModel(text, genome)
            g = Gene(path, genome=genome)
            desc = {"gene": f"toymut{case['seed']}.{case['k']}", "genome": genome, "strand": model.strand}
            n = check_catalogue(res, g, model, desc)
            loaded[genome] = (g, model)
        check_builds(res, *loaded["hg19"], *loaded["hg38"], {"gene": desc["gene"], "strands": [1, -1]})
        res.nontrivial = n >= 2
        res.fp = util.fingerprint(case)
        if case["k"] < 1:
            res.sample = {"gene": desc["gene"], "majors": list(loaded["hg19"][0].alleles)}
        return res
    if case["kind"] == "shipped":
        path = os.path.join(util.REPO, "aldy/resources/genes", case["gene"] + ".yml")
        with open(path) as f:
            text = f.read()
        loaded = {}
        for genome in ("hg19", "hg38"):
            model = catalogue.YamlModel(text, genome)
            g = tables.gene(case["gene"], genome, fresh=True)
            desc = {"gene": case["gene"], "genome": genome}
            n = check_catalogue(res, g, model, desc)
            loaded[genome] = (g, model)
        check_builds(res, *loaded["hg19"], *loaded["hg38"], {"gene": case["gene"]})
        res.nontrivial = n >= 2
        if case["gene"] in ("cyp2d6", "cyp2c19"):
            res.sample = {"gene": case["gene"], "majors": n, "configs": list(loaded["hg19"][0].cn_configs)}
    else:
        rng = util.rng_for("c09", case["seed"], case["k"])
        spec = dbgen.random_spec(rng, hostile=0.7)
        loaded = {}
        text = dbgen.to_yaml(spec)
        for genome in ("hg19", "hg38"):
            model = catalogue.YamlModel(text, genome)
            g = dbgen.load(spec, genome)
            desc = {"gene": f"gen{case['seed']}.{case['k']}", "genome": genome, "strand": model.strand}
            n = check_catalogue(res, g, model, desc)
            loaded[genome] = (g, model)
        check_builds(res, *loaded["hg19"], *loaded["hg38"], {"gene": desc["gene"],
                                                             "strands": [loaded["hg19"][1].strand, loaded["hg38"][1].strand]})
        res.nontrivial = n >= 2
        if case["k"] < 2:
            res.sample = {"gene": desc["gene"], "majors": list(loaded["hg19"][0].alleles),
                          "database_alleles": list(loaded["hg19"][1].alleles)}
    res.fp = util.fingerprint(case)
    return res
