"""Read simulator: produces alignments directly (no aligner) and writes real BAM files with pysam.

A sample is a list of *haplotypes*; a haplotype is a list of segments (contiguous genome intervals
of the gene or pseudogene locus) plus the variants it carries (loaded, genome-level notation).
Structures follow aldy's structural model: two complete haplotypes, each bringing one pseudogene
copy; every further copy is gene-only; a left fusion is pseudogene head + gene tail; a right fusion
is gene head + pseudogene tail + a whole pseudogene.  Reads that cross a fusion junction are written
as two soft-clipped pieces.
"""
import hashlib
import os

BASES = "ACGT"


class Ref:
    """Reference bases of the contig: truth genome if known, else the gene's own lookup sequence
    with deterministic pseudo-random bases where it has none."""

    def __init__(self, gene, truth_seq=None, salt="x"):
        self.gene, self.truth, self.salt = gene, truth_seq, salt
        self._cache = {}

    def base(self, c):
        if self.truth is not None and 0 <= c < len(self.truth):
            return self.truth[c]
        b = self.gene[c]
        if b != "N":
            return b
        if c not in self._cache:
            h = hashlib.md5(f"{self.salt}:{c}".encode()).digest()[0]
            self._cache[c] = BASES[h % 4]
        return self._cache[c]

    def slice(self, a, b):
        return "".join(self.base(c) for c in range(a, b))


def left_align(ref, edits, limit=60):
    """Shift deletions / insertions to their left-most equivalent placement, as aligners do."""
    subs, dels, ins = edits
    touched = set(subs)
    out_d = []
    for a, b in dels:
        k = 0
        while k < limit and ref.base(a - 1) == ref.base(b - 1) and (a - 1) not in touched:
            a, b, k = a - 1, b - 1, k + 1
        out_d.append((a, b))
    out_i = {}
    for P, x in ins.items():
        k = 0
        while k < limit and ref.base(P) == x[-1] and P not in touched:
            x = x[-1] + x[:-1]
            P, k = P - 1, k + 1
        out_i[P] = out_i.get(P, "") + x
    return subs, sorted(out_d), out_i


def edits_from_variants(variants):
    """Loaded variants -> (substitutions {pos: base}, deletions [(a, b)], insertions {after_pos: seq})."""
    subs, dels, ins = {}, [], {}
    for m in variants:
        P, op = m[0], m[1]
        if ">" in op:
            l, r = op.split(">")
            for k in range(len(l)):
                if l[k] != ".":
                    subs[P + k] = r[k]
        elif op.startswith("ins"):
            ins[P] = ins.get(P, "") + op[3:]
        elif op.startswith("del"):
            body = op[3:]
            insseq = ""
            if "ins" in body:
                body, insseq = body.split("ins")
            dels.append((P, P + len(body)))
            if insseq:
                ins[P - 1] = ins.get(P - 1, "") + insseq
    return subs, sorted(dels), ins


def make_read(ref, edits, s, e, name, clip_left="", clip_right="", mapq=60, qual=40, flag=0):
    """Alignment of the haplotype over reference [s, e). Returns a dict or None."""
    subs, dels, ins = edits
    for a, b in dels:  # do not start / end inside a deletion
        if a <= s < b:
            s = b
        if a < e <= b:
            e = a
    if e - s < 10:
        return None
    cigar, seq = [], []

    def push(op, n=1):
        if cigar and cigar[-1][0] == op:
            cigar[-1][1] += n
        else:
            cigar.append([op, n])

    if clip_left:
        push(4, len(clip_left))
        seq.append(clip_left)
    c = s
    di = 0
    while c < e:
        while di < len(dels) and dels[di][1] <= c:
            di += 1
        if di < len(dels) and dels[di][0] <= c < dels[di][1]:
            n = min(dels[di][1], e) - c
            push(2, n)
            c += n
            continue
        seq.append(subs.get(c, ref.base(c)))
        push(0)
        if c in ins and s + 2 <= c < e - 3:
            seq.append(ins[c])
            push(1, len(ins[c]))
        c += 1
    if clip_right:
        push(4, len(clip_right))
        seq.append(clip_right)
    # a read must not start or end with I/D
    while cigar and cigar[0][0] in (1, 2):
        cigar.pop(0)
    seq = "".join(seq)
    return {"name": name, "start": s, "cigar": [tuple(x) for x in cigar], "seq": seq,
            "qual": [qual] * len(seq), "mapq": mapq, "flag": flag}


def region_runs(gene, gi, keep):
    """Contiguous genome intervals formed by the regions of gene `gi` whose name is in `keep`."""
    ivs = sorted((rng.start, rng.end) for r, rng in gene.regions[gi].items()
                 if r in keep and rng.end > rng.start)
    runs = []
    for a, b in ivs:
        if runs and runs[-1][1] == a:
            runs[-1][1] = b
        else:
            runs.append([a, b])
    return [tuple(x) for x in runs]


def locus(gene, gi):
    a = min(r.start for r in gene.regions[gi].values())
    b = max(r.end for r in gene.regions[gi].values())
    return a, b


def segments_for(gene, config, complete=True):
    """Segments [(gene index, start, end, clip_lo, clip_hi)] of one copy of a configuration.
    complete=False: gene-only extra copy (one pseudogene copy less)."""
    cn = gene.cn_configs[config].cn
    segs = []
    ga, gb = locus(gene, 0)
    keep = {r for r, v in cn[0].items() if v > 0}
    for a, b in region_runs(gene, 0, keep):
        segs.append((0, a, b, a != ga, b != gb))
    if len(cn) > 1:
        pa, pb = locus(gene, 1)
        levels = max(cn[1].values()) if cn[1] else 0
        for lvl in range(1, levels + 1):
            keep = {r for r, v in cn[1].items() if v >= lvl}
            runs = region_runs(gene, 1, keep)
            whole = keep >= {r for r, rg in gene.regions[1].items() if rg.end > rg.start}
            if not complete and whole:
                complete = True  # drop exactly one whole pseudogene copy
                continue
            for a, b in runs:
                segs.append((1, a, b, a != pa, b != pb))
    return segs


def tile_segment(a, b, rl, step, clip_lo, clip_hi, phase=0):
    """Read intervals covering [a, b) so that every position is covered by exactly rl/step reads.
    Outer ends (no clip) extend into the flank; junction ends are clipped to the segment."""
    out = []
    s = a - rl + step + (phase % step)
    while s < b:
        e = s + rl
        cs, ce = s, e
        cl = cr = 0
        if clip_lo and cs < a:
            cl = a - cs
            cs = a
        if clip_hi and ce > b:
            cr = ce - b
            ce = b
        if ce - cs >= 1:
            out.append((cs, ce, cl, cr))
        s += step
    return out


def simulate(gene, haplotypes, rl=100, depth=20, ref=None, rng=None, neutral=None, neutral_copies=2,
             paired=False, error_rate=0.0, lowq_fraction=0.0, name_prefix="r", jitter=False,
             indel_placement="left"):
    """haplotypes: list of dicts {"segments": [...], "variants": [Mutation], "depth": optional}.
    Returns a list of read dicts."""
    import random

    rng = rng or random.Random(0)
    ref = ref or Ref(gene)
    step = max(1, rl // depth)
    reads = []
    n = 0
    for hi, h in enumerate(haplotypes):
        edits = h.get("edits") or edits_from_variants(h["variants"])
        if indel_placement == "left":
            edits = left_align(ref, edits)
        st = max(1, rl // h.get("depth", depth))
        for (gi, a, b, clo, chi) in h["segments"]:
            ed = edits if gi == 0 else ({}, [], {})
            ivs = tile_segment(a, b, rl, st, clo, chi, phase=rng.randrange(st) if jitter else 0)
            for k, (s, e, cl, cr) in enumerate(ivs):
                n += 1
                nm = f"{name_prefix}{hi}_{gi}_{k if not paired else k // 2}"
                r = make_read(ref, ed, s, e, nm,
                              clip_left="".join(rng.choice(BASES) for _ in range(cl)),
                              clip_right="".join(rng.choice(BASES) for _ in range(cr)))
                if r is None:
                    continue
                r["hap"] = hi
                if paired:
                    r["flag"] |= 0x1 | (0x40 if k % 2 == 0 else 0x80)
                reads.append(r)
    if neutral:
        a, b = neutral
        for c in range(neutral_copies):
            for k, (s, e, cl, cr) in enumerate(tile_segment(a, b, rl, step, False, False)):
                r = make_read(ref, ({}, [], {}), s, e, f"n{c}_{k}")
                if r:
                    r["hap"] = -1
                    reads.append(r)
    if error_rate:
        for r in reads:
            seq = list(r["seq"])
            for i in range(len(seq)):
                if rng.random() < error_rate:
                    seq[i] = rng.choice([x for x in BASES if x != seq[i]])
            r["seq"] = "".join(seq)
    if lowq_fraction:
        for r in reads:
            if rng.random() < lowq_fraction:
                r["qual"] = [rng.choice([2, 5, 8]) for _ in r["seq"]]
    return reads


def write_bam(path, chrom, contig_len, reads, extra_contigs=(), sort=True, fmt="bam"):
    """fmt='sam' writes an (unindexed) text SAM file instead."""
    import array

    import pysam

    header = {"HD": {"VN": "1.6", "SO": "coordinate"},
              "SQ": [{"SN": chrom, "LN": int(contig_len)}] + [{"SN": c, "LN": int(n)} for c, n in extra_contigs]}
    if sort:
        reads = sorted(reads, key=lambda r: (1 if r.get("unmapped") else 0, r.get("tid", 0), r["start"]))
    with pysam.AlignmentFile(path, "wb" if fmt == "bam" else "w", header=header) as out:
        for r in reads:
            a = pysam.AlignedSegment(out.header)
            a.query_name = r["name"]
            a.flag = r.get("flag", 0)
            if r.get("unmapped"):
                a.flag |= 0x4
                a.reference_id = -1
                a.reference_start = -1
                a.query_sequence = r["seq"]
                a.query_qualities = array.array("B", r["qual"])
                out.write(a)
                continue
            a.reference_id = r.get("tid", 0)
            a.reference_start = r["start"]
            a.mapping_quality = r.get("mapq", 60)
            a.cigartuples = r["cigar"]
            if r["seq"] is not None:  # (None: a record without stored sequence, SEQ and QUAL '*')
                a.query_sequence = r["seq"]
                if r.get("qual") is not None:
                    a.query_qualities = array.array("B", r["qual"])
            for t, v in r.get("tags", {}).items():
                a.set_tag(t, v)
            out.write(a)
    if fmt == "bam":
        pysam.index(path)
    return path


def haplotypes_for(gene, copies, variants_of=None):
    """copies: [(major, minor)] in structural order (first two are complete haplotypes; a gene with a
    deletion allele and fewer than two copies gets pseudogene-only haplotypes)."""
    from aldy.gene import Mutation

    out = []
    dele = gene.deletion_allele()
    for i, c in enumerate(copies):
        major, minor = c[0], c[1]
        a = gene.alleles[major]
        vs = set(a.func_muts) | set(a.minors[minor].neutral_muts)
        if len(c) > 2:
            vs = (vs | set(c[2])) - set(c[3])
        out.append({"segments": segments_for(gene, a.cn_config, complete=(i < 2)),
                    "variants": sorted(vs), "allele": (major, minor)})
    for i in range(len(copies), 2):
        if dele:
            out.append({"segments": segments_for(gene, dele, complete=True), "variants": [],
                        "allele": (dele, None)})
    return out


def contig_length(gene, neutral=None):
    hi = max(r.end for g in gene.regions for r in g.values())
    if neutral:
        hi = max(hi, neutral[1])
    return hi + 3000


def edits_from_written(model, written):
    """Genome-level edits from variants in database (RefSeq) notation, through the generator's own
    maps (ref/catalogue.YamlModel) - independent of aldy's loader."""
    comp = {"A": "T", "C": "G", "G": "C", "T": "A", ".": "."}
    subs, dels, ins = {}, [], {}
    for pos1, op in written:
        i = pos1 - 1
        if ">" in op:
            l, r = op.split(">")
            for k in range(len(l)):
                if l[k] != ".":
                    c = model.r2c[i + k]
                    subs[c] = r[k] if model.strand > 0 else comp[r[k]]
        elif op.startswith("ins"):
            x = op[3:]
            if model.strand > 0:
                ins[model.r2c[i]] = ins.get(model.r2c[i], "") + x
            else:
                c = model.r2c[i + 1]
                ins[c] = ins.get(c, "") + "".join(comp[b] for b in reversed(x))
        elif op.startswith("del"):
            body = op[3:]
            insseq = ""
            if "ins" in body:
                body, insseq = body.split("ins")
            cs = [model.r2c[i + k] for k in range(len(body))]
            a, b = min(cs), max(cs) + 1
            dels.append((a, b))
            if insseq:
                y = insseq if model.strand > 0 else "".join(comp[b_] for b_ in reversed(insseq))
                ins[a - 1] = ins.get(a - 1, "") + y
    return subs, sorted(dels), ins
