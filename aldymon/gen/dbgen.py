"""Generator of consistent gene databases (YAML) for aldy, with the intended meaning of everything
kept alongside (the 'truth'): RefSeq<->genome maps per build, variant semantics at RefSeq level,
truth genome sequence.

A database is "consistent" when: regions tile the RefSeq image without gaps, exon regions are the
images of the RefSeq exons, variants of one allele never overlap, every variant's reference
allele matches the RefSeq, alignment gaps (I/D) lie strictly inside regions and away from variants.
"""
import copy
import os

import yaml

BASES = "ACGT"
COMP = {"A": "T", "C": "G", "G": "C", "T": "A", "N": "N", ".": "."}


def revcomp(s):
    return "".join(COMP[c] for c in reversed(s))


def rand_seq(rng, n):
    # avoid long homopolymers so that indel placement is mostly unambiguous unless asked for
    out = []
    for i in range(n):
        c = rng.choice(BASES)
        while len(out) >= 2 and out[-1] == c and out[-2] == c:
            c = rng.choice(BASES)
        out.append(c)
    return "".join(out)


# ------------------------------------------------------------------ layout


def _blocks(rng, L, protected, allow_gaps):
    """Alignment blocks covering L RefSeq bases: list of (op, n). Gaps avoid `protected` RefSeq
    positions (0-based) by >= 8 bases."""
    if not allow_gaps or L < 300:
        return [("M", L)]
    cuts = []
    for _ in range(rng.randint(1, 3)):
        for _try in range(30):
            c = rng.randint(40, L - 40)
            if all(abs(c - p) > 12 for p in protected) and all(abs(c - d) > 30 for d, _, _ in cuts):
                cuts.append((c, rng.choice("ID"), rng.randint(1, 5)))
                break
    cuts.sort()
    out, pos = [], 0
    for c, op, n in cuts:
        if op == "I" and c + n + 20 > L:
            continue
        out.append(("M", c - pos))
        out.append((op, n))
        pos = c + (n if op == "I" else 0)
    out.append(("M", L - pos))
    return [(o, n) for o, n in out if n > 0]


def build_maps(L, start1, strand, blocks):
    """ref_to_chr / chr_to_ref (0-based) exactly as the documented alignment semantics:
    start1 is the 1-based genome start; on '-' RefSeq runs against the genome."""
    r2c, c2r = {}, {}
    pr = 0 if strand > 0 else L - 1
    pc = start1 - 1
    for op, n in blocks:
        if op == "M":
            for k in range(n):
                r2c[pr + k * strand] = pc + k
                c2r[pc + k] = pr + k * strand
            pc += n
            pr += n * strand
        elif op == "I":
            pr += n * strand
        elif op == "D":
            pc += n
    return r2c, c2r, pc  # pc = 0-based end (exclusive)


# ------------------------------------------------------------------ variants


def apply_refseq(seq, pos1, op):
    """Apply a variant written in database (RefSeq, 1-based) notation to a RefSeq string.
    insX at p: X inserted after 1-based p."""
    i = pos1 - 1
    if ">" in op:
        l, r = op.split(">")
        assert len(l) == len(r)
        out = list(seq)
        for k in range(len(l)):
            if l[k] != ".":
                assert seq[i + k] == l[k], (seq[i + k], l[k], pos1, op)
                out[i + k] = r[k]
        return "".join(out)
    if op.startswith("ins"):
        return seq[: i + 1] + op[3:] + seq[i + 1:]
    if op.startswith("del"):
        body = op[3:]
        ins = ""
        if "ins" in body:
            body, ins = body.split("ins")
        assert seq[i: i + len(body)] == body, (seq[i: i + len(body)], body, pos1)
        return seq[:i] + ins + seq[i + len(body):]
    raise ValueError(op)


def variant_span(pos1, op):
    """0-based half-open RefSeq interval a variant touches (insertions: the two flanking bases)."""
    i = pos1 - 1
    if ">" in op:
        return i, i + len(op.split(">")[0])
    if op.startswith("ins"):
        return i, i + 2
    body = op[3:].split("ins")[0]
    return i, i + len(body)


def _rand_variant(rng, seq, lo, hi, kind):
    """A variant of `kind` inside RefSeq [lo, hi) (0-based), as (pos1, op)."""
    for _ in range(50):
        i = rng.randint(lo, hi - 6)
        if kind == "snp":
            x = seq[i]
            return i + 1, f"{x}>{rng.choice([b for b in BASES if b != x])}"
        if kind == "mnp":
            n = rng.choice([2, 2, 3])
            l = seq[i: i + n]
            r = "".join(rng.choice([b for b in BASES if b != c]) for c in l)
            return i + 1, f"{l}>{r}"
        if kind == "mnpdot":
            l = seq[i: i + 3]
            r = [rng.choice([b for b in BASES if b != c]) for c in l]
            return i + 1, f"{l[0]}.{l[2]}>{r[0]}.{r[2]}"
        if kind == "del":
            n = rng.choice([1, 1, 2, 3, 4])
            return i + 1, f"del{seq[i: i + n]}"
        if kind == "ins":
            n = rng.choice([1, 1, 2, 3, 4])
            s = rand_seq(rng, n)
            # avoid trivially shiftable insertions unless the context allows it anyway
            return i + 1, f"ins{s}"
        if kind == "delins":
            n = rng.choice([2, 3])
            body = seq[i: i + n]
            s = rand_seq(rng, rng.choice([1, 2, 4]))
            if s[0] == body[0] or s[-1] == body[-1]:
                continue
            return i + 1, f"del{body}ins{s}"
    raise RuntimeError("no variant")


# ------------------------------------------------------------------ the database


def random_spec(rng, want_cn=None, pseudogene=None, kinds=None, hostile=0.3, max_len=None,
                gaps=None, strands=None, n_majors=None, silent_kinds=None, name="GENX", structural=None,
                tandem_del=False):
    """Random consistent database.  Returns dict with keys: yml (the YAML dict), truth (dict)."""
    pname = name + "P"
    if pseudogene is None:
        pseudogene = rng.random() < 0.6
    if want_cn is None:
        want_cn = rng.random() < 0.7
    if want_cn and rng.random() < 0.85:
        pseudogene = True
    # structural: None (any mixture) | "right_only" | "left_only" | "deletion_only" - the only kind of structural
    # allele the database defines
    if structural in ("right_only", "left_only"):
        pseudogene = want_cn = True
    elif structural == "deletion_only":
        want_cn = True
    kinds = kinds or ["snp", "snp", "snp", "mnp", "del", "ins", "mnpdot", "delins"]
    n_exons = rng.randint(2, 4)
    # RefSeq layout (0-based, 5'->3'): up | [utr5] | e1 i1 e2 ... | [utr3] | down
    lens = {"up": rng.randint(40, 120)}
    order = ["up"]
    if rng.random() < 0.5:
        lens["utr5"] = rng.randint(15, 40)
        order.append("utr5")
    for k in range(1, n_exons + 1):
        lens[f"e{k}"] = 3 * rng.randint(10, 30)
        order.append(f"e{k}")
        if k < n_exons:
            lens[f"i{k}"] = rng.randint(40, 160)
            order.append(f"i{k}")
    if rng.random() < 0.5:
        lens["utr3"] = rng.randint(15, 40)
        order.append("utr3")
    lens["down"] = rng.randint(40, 120)
    order.append("down")
    if max_len:
        tot = sum(lens.values())
        if tot > max_len:
            f = max_len / tot
            for k in lens:
                lens[k] = max(12 if k[0] != "e" else 30, int(lens[k] * f))
                if k[0] == "e":
                    lens[k] -= lens[k] % 3
    rs = {}
    p = 0
    for r in order:
        rs[r] = (p, p + lens[r])
        p += lens[r]
    L = p
    seq = rand_seq(rng, L)
    exons1 = [[rs[f"e{k}"][0] + 1, rs[f"e{k}"][1] + 1] for k in range(1, n_exons + 1)]

    # ---- variants (RefSeq level), spaced out
    used = []  # spans

    def free(span, margin=10):
        return all(span[1] + margin <= a or b + margin <= span[0] for a, b in used)

    def place(kind, region=None, margin=10):
        for _ in range(200):
            reg = region or rng.choice(order)
            lo, hi = rs[reg]
            if hi - lo < 24:
                continue
            if kind == "snp" and rng.random() < hostile * 0.5:
                # hostile: a substitution on the first / last base of a region
                i = rng.choice([lo, hi - 1])
                pos1, op = i + 1, f"{seq[i]}>{rng.choice([b for b in BASES if b != seq[i]])}"
                if free((i, i + 1), margin):
                    used.append((i, i + 1))
                    return [pos1, op]
                continue
            pos1, op = _rand_variant(rng, seq, lo + 8, hi - 8, kind)
            sp = variant_span(pos1, op)
            if sp[0] < lo + 6 or sp[1] > hi - 6:
                continue
            if free(sp, margin):
                used.append(sp)
                return [pos1, op]
        return None

    # optional: a tandem tract (unit of 2-3 bases, 3-5 repeats and a partial trailing unit) written into the sequence
    # with a catalogued deletion of one unit somewhere inside it (its placement is one of several equivalent ones)
    tandem_variant = None
    if tandem_del:
        import random as _random

        r2 = _random.Random(rng.random())
        for _ in range(30):
            reg = r2.choice([r for r in order if rs[r][1] - rs[r][0] >= 40])
            lo, hi = rs[reg]
            unit = rand_seq(r2, r2.choice([2, 2, 3]))
            if len(set(unit)) < 2:
                continue
            tract = unit * r2.choice([3, 4, 5]) + unit[: r2.choice([1, len(unit) - 1])]
            i = r2.randint(lo + 8, hi - 8 - len(tract))
            # the tract must end where it ends: flanking bases must not extend it
            left = r2.choice([b for b in BASES if b != tract[-1] and b != unit[-1]])
            right = r2.choice([b for b in BASES if b != tract[len(tract) % len(unit)] and b != unit[0]])
            seq = seq[: i - 1] + left + tract + right + seq[i + len(tract) + 1:]
            k = r2.randint(0, len(tract) - len(unit))
            tandem_variant = [i + k + 1, f"del{tract[k: k + len(unit)]}", "-", "frameshift"]
            used.append((i - 1, i + len(tract) + 1))
            break

    n_major = n_majors or rng.randint(2, 6)
    func_pool = []
    for i in range(n_major + 2):
        kind = rng.choice(kinds)
        reg = rng.choice([r for r in order if r[0] == "e"] * 3 + order)
        v = place(kind, reg)
        if v:
            func_pool.append(v + [f"rs{1000 + i}" if rng.random() < 0.7 else "-",
                                  rng.choice(["frameshift", "P34S", "splicing defect", "R296C"])])
    # inferred-functional: exonic without function string (indel or amino-acid change is decided by aldy)
    inferred_pool = []
    if rng.random() < 0.5:
        v = place(rng.choice(["del", "ins"]), rng.choice([r for r in order if r[0] == "e"]))
        if v:
            inferred_pool.append(v + ["-"])
    silent_pool = []
    nonex = [r for r in order if r[0] != "e"]
    for i in range(rng.randint(2, 7)):
        v = place(rng.choice(silent_kinds or [k for k in kinds if k != "delins"]), rng.choice(nonex))
        if v:
            silent_pool.append(v + ([f"rs{2000 + i}"] if rng.random() < 0.6 else []))
    # hostile: second alternative at an existing SNP site; insertion right next to a SNP
    if rng.random() < hostile and func_pool:
        for v in func_pool:
            if ">" in v[1] and len(v[1]) == 3:
                alt = rng.choice([b for b in BASES if b not in (v[1][0], v[1][2])])
                silent_pool.append([v[0], f"{v[1][0]}>{alt}"])
                break
    if rng.random() < hostile and silent_pool:
        for v in silent_pool:
            if ">" in v[1] and len(v[1]) == 3 and v[0] + 2 < L:
                func_pool.append([v[0], f"ins{rand_seq(rng, 2)}", "-", "frameshift"])
                break

    # hostile: a substitution 2-6 bases after an insertion / deletion, both core variants of one allele
    close_pair = None
    if rng.random() < hostile + 0.25:
        cands = [m for m in func_pool if m[1][:3] in ("ins", "del") and "ins" not in m[1][3:]]
        if cands:
            v = rng.choice(cands)
            sp = variant_span(v[0], v[1])
            i = sp[1] + rng.randint(2, 6)
            reg = [r for r in order if rs[r][0] <= sp[0] < rs[r][1]]
            if reg and i + 4 < rs[reg[0]][1] and all(b + 3 <= i or i + 3 <= a for a, b in used if (a, b) != sp):
                w = [i + 1, f"{seq[i]}>{rng.choice([b for b in BASES if b != seq[i]])}", "-", "P34S"]
                used.append((i, i + 1))
                close_pair = (v, w)

    # hostile: the same inserted bases a second time 18-45 bases downstream, both core variants of one allele
    # (reads span both; the second insertion's bases equal the first's)
    twin_pair = None
    if rng.random() < hostile * 0.7:
        cands = [m for m in func_pool if m[1].startswith("ins")]
        if cands:
            v = rng.choice(cands)
            reg = [r for r in order if rs[r][0] <= v[0] - 1 < rs[r][1]]
            for _ in range(20):
                i = v[0] + rng.randint(18, 45)
                if reg and i + 8 < rs[reg[0]][1] and free((i - 1, i + 1), 6):
                    used.append((i - 1, i + 1))
                    twin_pair = (v, [i, v[1], "-", "frameshift"])
                    break

    alleles = {}
    alleles[f"{name}*1.001"] = {"label": f"{name}*1", "activity": "normal function", "mutations": []}

    def compatible(muts):
        spans = sorted(variant_span(m[0], m[1]) for m in muts)
        keys = set()
        for m in muts:
            if m[1].startswith("ins"):
                continue
            if m[0] in keys:
                return False
            keys.add(m[0])
        for (a, b), (c, d) in zip(spans, spans[1:]):
            if c < b:
                # an insertion may sit next to / on a substitution; nothing else may overlap
                return False
        return True

    majors = []  # (number, core list)
    pool = func_pool + inferred_pool
    for k in range(n_major):
        for _ in range(20):
            core = rng.sample(pool, min(len(pool), rng.choice([1, 1, 2, 3]))) if pool else []
            key = sorted((m[0], m[1]) for m in core)
            if core and compatible(core) and key not in [sorted((m[0], m[1]) for m in c) for _, c in majors]:
                majors.append((k + 2, core))
                break
    if close_pair:
        majors.append((n_major + 2, [list(close_pair[0]), list(close_pair[1])]))
    if twin_pair:
        majors.append((n_major + 3, [list(twin_pair[0]), list(twin_pair[1])]))
    if tandem_variant:
        majors.append((n_major + 4, [list(tandem_variant)]))
    for num, core in majors:
        n_minor = rng.choice([1, 1, 2, 3])
        seen_sets = []
        for j in range(n_minor):
            sil = rng.sample(silent_pool, min(len(silent_pool), rng.choice([0, 1, 2, 3]))) if j else []
            muts = core + sil
            if not compatible(muts):
                muts = core
            alleles[f"{name}*{num}.{j + 1:03d}"] = {
                "mutations": [list(m) for m in muts],
            }
            if j == 0:
                alleles[f"{name}*{num}.001"]["label"] = f"{name}*{num}"
            elif rng.random() < 0.4:
                alleles[f"{name}*{num}.{j + 1:03d}"]["label"] = f"{name}*{num}{chr(64 + j)}"
            seen_sets.append(muts)
    # sub-alleles of *1 with silent variants only
    for j in range(rng.choice([0, 1, 2, 3])):
        sil = rng.sample(silent_pool, min(len(silent_pool), rng.choice([1, 2]))) if silent_pool else []
        if sil and compatible(sil):
            alleles[f"{name}*1.{j + 2:03d}"] = {"label": f"{name}*1{chr(65 + j)}", "mutations": [list(m) for m in sil]}
    # duplicate variant set under another name (alias table)
    if rng.random() < hostile and majors:
        num, core = rng.choice(majors)
        src = alleles[f"{name}*{num}.001"]["mutations"]
        alleles[f"{name}*{num}.009"] = {"mutations": [list(m) for m in src]}
    # name collision: different core set under the same number
    if rng.random() < hostile and len(majors) >= 2 and pool:
        num, core = majors[0]
        extra = [m for m in pool if m not in core]
        if extra:
            c2 = core + [extra[0]]
            keyset = [sorted((m[0], m[1]) for m in c) for _, c in majors]
            if compatible(c2) and sorted((m[0], m[1]) for m in c2) not in keyset:
                alleles[f"{name}*{num}.050"] = {"mutations": [list(m) for m in c2]}
                if rng.random() < 0.5:
                    alleles[f"{name}*{num}.050"]["label"] = f"{name}*{num}X"
                majors.append((f"{num}.050", c2))
    # duplicate variant set under a different allele number (natural vs string order of names differ)
    if rng.random() < hostile and majors:
        num, core = rng.choice([m for m in majors if isinstance(m[0], int)] or majors)
        if isinstance(num, int):
            src = alleles[f"{name}*{num}.001"]["mutations"]
            alleles[f"{name}*{num + 8}.001"] = {"mutations": [list(m) for m in src]}
    # several different core sets under one number and one (already taken) label
    if rng.random() < hostile and majors and len(pool) >= 3:
        num, core = majors[0]
        if isinstance(num, int):
            keyset = [sorted((m[0], m[1]) for m in c) for _, c in majors]
            made = 0
            for extra_v in pool:
                c2 = core + [extra_v]
                k2 = sorted((m[0], m[1]) for m in c2)
                if extra_v in core or not compatible(c2) or k2 in keyset:
                    continue
                alleles[f"{name}*{num}.{60 + made:03d}"] = {"label": f"{name}*{num}",
                                                             "mutations": [list(m) for m in c2]}
                keyset.append(k2)
                majors.append((f"{num}.{60 + made:03d}", c2))
                made += 1
                if made >= 3:
                    break
    if rng.random() < 0.2:
        alleles[f"{name}*99.001"] = {"ignored": True, "mutations": [[5, f"{seq[4]}>{'A' if seq[4] != 'A' else 'C'}"]]}

    # ---- structural alleles
    genes = [name] + ([pname] if pseudogene else [])
    fusion_alleles = {}
    next_num = 40
    tandems = []
    if want_cn:
        if pseudogene and structural != "deletion_only":
            breaks = [r for r in order if r not in ("up",)][1:-1]
            for _ in range(rng.choice([1, 1, 2, 3])):
                brk = rng.choice(breaks)
                left = rng.random() < 0.5
                if structural in ("right_only", "left_only"):
                    left = structural == "left_only"
                an = f"{name}*{next_num}.001"
                muts = [[pname, f"{brk}-" if left else rng.choice([f"{brk}+", brk])]]
                if rng.random() < 0.35 and func_pool:
                    # own core variant inside the retained gene part (hostile: inside the lost part)
                    idx = order.index(brk)
                    keep = order[idx:] if left else order[:idx]
                    if rng.random() < hostile * 0.6:
                        keep = order[:idx] if left else order[idx:]
                    cands = [m for m in func_pool
                             if any(rs[r][0] <= m[0] - 1 < rs[r][1] for r in keep)]
                    if cands:
                        muts.append(list(rng.choice(cands)))
                alleles[an] = {"label": f"{name}*{next_num}", "mutations": muts}
                fusion_alleles[str(next_num)] = ("left" if left else "right", brk)
                next_num += 1
        if structural in ("right_only", "left_only"):
            pass
        elif rng.random() < 0.8 or not pseudogene or structural == "deletion_only":
            alleles[f"{name}*{next_num}.001"] = {"label": f"{name}*{next_num}DEL",
                                                "mutations": [[name, "deletion"]]}
            fusion_alleles[str(next_num)] = ("deletion", None)
            next_num += 1
        # hostile: a custom partial deletion that removes exactly the regions a fusion loses
        fl = [(k_, v_) for k_, v_ in fusion_alleles.items() if v_[0] in ("left", "right")]
        if fl and rng.random() < hostile * 0.5 and not structural:
            k_, (kind_, brk_) = rng.choice(fl)
            idx = order.index(brk_)
            lost = order[:idx] if kind_ == "left" else order[idx:]
            if lost and len(lost) < len(order):
                alleles[f"{name}*{next_num}.001"] = {"mutations": [[name, "deletion:" + ",".join(lost)]]}
                fusion_alleles[str(next_num)] = ("custom", tuple(lost))
                next_num += 1
                if rng.random() < 0.6:
                    # hostile: the same partial deletion declared by a second allele (same structure, same - empty -
                    # core set; possibly a silent variant in a retained region)
                    kept = [r for r in order if r not in lost]
                    sil = [m for m in silent_pool if any(rs[r][0] <= m[0] - 1 < rs[r][1] for r in kept)]
                    muts2 = [[name, "deletion:" + ",".join(lost)]]
                    if sil and rng.random() < 0.6:
                        muts2.append(list(rng.choice(sil)))
                    alleles[f"{name}*{next_num}.001"] = {"mutations": muts2}
                    fusion_alleles[str(next_num)] = ("custom", tuple(lost))
                    next_num += 1
        if rng.random() < 0.2 and not structural:
            k = rng.randint(1, n_exons - 1) if n_exons > 1 else 1
            alleles[f"{name}*{next_num}.001"] = {
                "mutations": [[name, f"deletion:e{k},i{k}" if n_exons > k else f"deletion:e{k}"]]}
            fusion_alleles[str(next_num)] = ("custom", k)
            next_num += 1
        nums = [str(n) for n, _ in majors if isinstance(n, int)]
        if nums and rng.random() < 0.6:
            tandems.append([nums[0], "1"])
        lf = [k for k, v in fusion_alleles.items() if v[0] == "left"]
        if lf and rng.random() < 0.6:
            tandems.append([lf[0], rng.choice(nums + ["1"])])
    if rng.random() < 0.3 and silent_pool:
        alleles["random"] = [list(rng.choice(silent_pool))[:2]]

    # ---- per-build genome layout
    protected = sorted({x for a, b in used for x in (a, b)} | {x for a, b in rs.values() for x in (a, b)})
    builds = {}
    regions_y = {}
    mappings = {}
    chrom = rng.choice(["7", "19", "X"]) if rng.random() < 0.7 else rng.choice(["22", "10", "1"])
    zero_pce = pseudogene and rng.random() < 0.3
    cn_regions = [r for r in order if r[0] in "ei"]
    if rng.random() < 0.3:
        cn_regions = cn_regions[: max(2, len(cn_regions) - 1)]
    if zero_pce and rng.random() < 0.7:
        cn_regions.append("pce")
    for bi, genome in enumerate(["hg19", "hg38"]):
        strand = (strands[bi] if strands else rng.choice([1, -1]))
        blocks = _blocks(rng, L, protected, gaps if gaps is not None else rng.random() < 0.5)
        if strand < 0:
            blocks = blocks[::-1]  # blocks are planned 5'->3' on the RefSeq, written in genome order
        G = sum(n for o, n in blocks if o in "MD")
        ext_up = rng.choice([0, 0, 7, 30])
        ext_down = rng.choice([0, 0, 11, 50])
        plen = None
        # pseudogene region lengths: same as gene or slightly different
        gene_first = rng.random() < 0.5
        base = rng.randint(3000, 20000)
        gap_between = rng.randint(900, 3000)
        # gene region intervals in genome coords (0-based)
        # place gene at gstart0
        r2c = c2r = None
        # two passes: decide positions
        glen_total = G + ext_up + ext_down
        preg_len = {}
        for r in order:
            ln = lens[r]
            if rng.random() < 0.3:
                ln = max(6, ln + rng.randint(-5, 9))
            preg_len[r] = ln
        if zero_pce:
            preg_len["pce"] = rng.randint(30, 80)
        plen = sum(preg_len.values())
        if gene_first or not pseudogene:
            gstart0 = base
            pstart0 = base + glen_total + gap_between
        else:
            pstart0 = base
            gstart0 = base + plen + gap_between
        lead = ext_up if strand > 0 else ext_down
        start1 = gstart0 + lead + 1
        r2c, c2r, end0 = build_maps(L, start1, strand, blocks)
        gr = {}
        for r in order:
            a, b = rs[r]
            if strand > 0:
                s0, e0 = r2c[a], r2c[b - 1] + 1
            else:
                s0, e0 = r2c[b - 1], r2c[a] + 1
            gr[r] = [s0, e0]
        # extend the outermost regions beyond the RefSeq image
        lo_r, hi_r = (order[0], order[-1]) if strand > 0 else (order[-1], order[0])
        gr[lo_r][0] -= lead
        gr[hi_r][1] += (ext_down if strand > 0 else ext_up)
        if zero_pce:
            # zero-length region in the gene, sitting between two gene regions
            anchor = gr[order[-2]][1] if strand > 0 else gr[order[-2]][0]
            gr["pce"] = [anchor, anchor]
        pr = {}
        porder = list(order)
        if zero_pce:
            porder = order[:-1] + ["pce"] + order[-1:]
        pos = pstart0
        seq_regs = porder if strand > 0 else porder[::-1]
        for r in seq_regs:
            pr[r] = [pos, pos + preg_len[r]]
            pos += preg_len[r]
        names_all = list(order) + (["pce"] if zero_pce else [])
        ry = {}
        for r in names_all:
            if r[0] == "i" and r[1:].isdigit():
                continue  # introns are derived by aldy
            row = [gr[r][0] + 1, gr[r][1] + 1]
            if pseudogene:
                row += [pr[r][0] + 1, pr[r][1] + 1]
            ry[r] = row
        regions_y[genome] = ry
        cig = " ".join(f"{o}{n}" for o, n in blocks)
        mappings[genome] = [chrom, start1, end0 + 1, "+" if strand > 0 else "-", cig]
        # truth genome: RefSeq image (strand-oriented), D blocks and everything else random
        far = max(gr[hi_r][1], pos if pseudogene else 0) + 2500
        neutral = [far - 2000, far - 1200]
        contig_len = far + 500
        gseq = list(rand_seq(rng, contig_len))
        for c, r in c2r.items():
            gseq[c] = seq[r] if strand > 0 else COMP[seq[r]]
        builds[genome] = {
            "strand": strand, "blocks": blocks, "start1": start1, "end0": end0, "chrom": chrom,
            "r2c": r2c, "c2r": c2r, "gene_regions": {r: tuple(v) for r, v in gr.items()},
            "pseudo_regions": {r: tuple(v) for r, v in pr.items()} if pseudogene else {},
            "genome_seq": "".join(gseq), "neutral": neutral, "contig_len": contig_len,
        }
        # introns of gene/pseudogene as aldy derives them (for the truth side)
        for tbl in (builds[genome]["gene_regions"], builds[genome]["pseudo_regions"]):
            if not tbl:
                continue
            for k in range(1, n_exons):
                a, b = tbl[f"e{k}"], tbl[f"e{k + 1}"]
                lo, hi = (a, b) if strand > 0 else (b, a)
                tbl[f"i{k}"] = (lo[1], hi[0])

    yml = {
        "name": name,
        "version": "gen-1.0",
        "generated": "2026-01-01",
        "alleles": alleles,
        "structure": {"genes": genes, "regions": regions_y, "cn_regions": cn_regions},
        "reference": {"name": "NG_GEN.1", "mappings": mappings, "exons": exons1, "seq": seq},
    }
    if tandems:
        yml["structure"]["tandems"] = tandems
    truth = {
        "name": name, "pseudogene": pname if pseudogene else None, "L": L, "seq": seq,
        "order": order, "rs": rs, "builds": builds, "n_exons": n_exons, "exons1": exons1,
        "fusions": fusion_alleles, "zero_pce": zero_pce, "tandem_variant": tandem_variant,
    }
    return {"yml": yml, "truth": truth}


def to_yaml(spec):
    return yaml.safe_dump(spec["yml"], sort_keys=False, width=100000)


def load(spec, genome):
    from aldy.gene import Gene

    return Gene(None, name=spec["yml"]["name"], yml=to_yaml(spec), genome=genome)


def write(spec, directory, fname="genx.yml"):
    path = os.path.join(directory, fname)
    with open(path, "w") as f:
        f.write(to_yaml(spec))
    return path


_CACHE = {}


def random_gene(rng, genome="hg19", want_cn=None, **kw):
    """A loaded Gene for a random database (cached per rng draw)."""
    seed = rng.getrandbits(32) % 40  # a pool of 40 databases per option set keeps loading cheap
    key = (seed, genome, want_cn, tuple(sorted(kw.items())))
    if key not in _CACHE:
        import random

        spec = random_spec(random.Random(seed * 7919 + 13), want_cn=want_cn, **kw)
        _CACHE[key] = load(spec, genome)
        _CACHE[key]._gen_spec = spec
    return _CACHE[key]
