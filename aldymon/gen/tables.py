"""Evidence tables built the way the repository's own synthetic tests build them:
Coverage(gene, profile, None, {pos: {op: [(mq, q), ...]}}, None, {}).
"""
import collections
import os

from .. import util

_GENES = {}


def gene(name, genome="hg19", fresh=False):
    """Load a shipped gene ('cyp2d6'), the toy gene ('toy') or a YAML path."""
    from aldy.gene import Gene

    key = (name, genome)
    if fresh or key not in _GENES:
        if name == "toy":
            path = os.path.join(util.REPO, "aldy/tests/resources/toy.yml")
        elif os.path.sep in name:
            path = name
        else:
            path = os.path.join(util.REPO, "aldy/resources/genes", name + ".yml")
        g = Gene(path, genome=genome)
        if fresh:
            return g
        _GENES[key] = g
    return _GENES[key]


def shipped_gene_names():
    d = os.path.join(util.REPO, "aldy/resources/genes")
    return sorted(f[:-4] for f in os.listdir(d) if f.endswith(".yml"))


def allele_variants(g, major, minor=None):
    a = g.alleles[major]
    muts = set(a.func_muts)
    if minor:
        muts |= set(a.minors[minor].neutral_muts)
    return muts


def callable_allele(g, major):
    """False for an allele defined with a core variant in a region its own structure lacks (a fusion allele
    with a core variant in the part the fusion loses can never show that variant)."""
    return all(g.has_coverage(major, m.pos) for m in g.alleles[major].func_muts)


def all_copies(g, with_minors=True, only_callable=True):
    """[(major, minor)] for every catalogued allele (deletion allele included if it has a minor)."""
    out = []
    for an, a in g.alleles.items():
        if only_callable and not callable_allele(g, an):
            continue
        for mn in a.minors:
            out.append((an, mn))
    return out


def cn_list(g, copies):
    """Configuration names for a list of (major, minor) copies, deletion allele dropped
    (as estimate_cn reports structures)."""
    dele = g.deletion_allele()
    return [g.alleles[m].cn_config for m, _ in copies if g.alleles[m].cn_config != dele]


def has_region(g, major, pos):
    return g.has_coverage(major, pos)


def planted_counts(g, copies, depth, sites=None, extra_variants=None):
    """Noise-free integer counts {pos: {op: n}} for the given copies.

    copies: [(major, minor, added set, missing set)] or [(major, minor)].
    Every copy that has the region contributes `depth` observations at every site: to the
    variant it carries there (non-insertion), else to the reference; an insertion contributes to
    its own op *and* the base under it.
    """
    counts = collections.defaultdict(lambda: collections.defaultdict(int))
    if sites is None:
        sites = sorted({p for p, _ in g.mutations})
    norm = []
    for c in copies:
        major, minor = c[0], c[1]
        muts = allele_variants(g, major, minor)
        if len(c) > 2:
            muts = (muts | set(c[2])) - set(c[3])
        norm.append((major, muts))
    for pos in sites:
        for major, muts in norm:
            if not has_region(g, major, pos):
                continue
            here = [m for m in muts if m.pos == pos]
            non_ins = [m for m in here if not m.op.startswith("ins")]
            for m in here:
                if m.op.startswith("ins"):
                    counts[pos][m.op] += depth
            if non_ins:
                counts[pos][non_ins[0].op] += depth
            else:
                counts[pos]["_"] += depth
    for (pos, op), n in (extra_variants or {}).items():
        counts[pos][op] += n
    return {p: dict(v) for p, v in counts.items()}


def noisy(counts, rng, eps):
    """Multiplicative integer noise on every cell."""
    out = {}
    for p, ops in counts.items():
        out[p] = {}
        for op, n in ops.items():
            out[p][op] = max(0, int(round(n * rng.uniform(1 - eps, 1 + eps))))
    return out


def make_coverage(g, counts, profile=None, quals=(60, 60), lowq=None, phases=None, indels=None, **params):
    """Coverage object from integer counts. lowq: {pos: {op: [(mq, q), ...]}} extra observations."""
    from aldy.coverage import Coverage
    from aldy.profile import Profile
    from aldy.sam import Sample

    if profile is None:
        profile = Profile("test", **params)
    cov = collections.defaultdict(dict)
    for p, ops in counts.items():
        for op, n in ops.items():
            cov[p][op] = [tuple(quals)] * n
    for p, ops in (lowq or {}).items():
        for op, lst in ops.items():
            cov[p][op] = list(cov[p].get(op, [])) + [tuple(x) for x in lst]
    c = Coverage(g, profile, None, dict(cov), indels, {})
    if phases is not None:
        c.sam = Sample.__new__(Sample)
        c.sam.phases = phases
    return c


def region_depths(g, configs, extra_pseudo=0):
    """Per-region (gene, pseudogene) copy numbers of a structure following aldy's structural
    model: the first two configurations are complete, further ones are gene-only."""
    out = {}
    for r in g.unique_regions:
        a = b = 0.0
        for i, c in enumerate(configs):
            cn = g.cn_configs[c].cn
            a += cn[0][r]
            if len(cn) > 1:
                b += cn[1][r] if i < 2 else max(0, cn[1][r] - 1)
        out[r] = (a, b + extra_pseudo)
    return out


def split_indel_table(g, counts, rng, scale_choices=(1.0, 1.0, 0.7, 1.4)):
    """Move the counts of catalogued insertions / deletions into a realigner-style table
    {(pos, op): [non-supporting, supporting]} whose total may differ from the pile-up depth (the ratio, i.e. the
    observed copy number, is kept up to rounding).  Returns (counts without insertion cells, table)."""
    table = {}
    out = {p: dict(ops) for p, ops in counts.items()}
    for (p, op) in g.mutations:
        if op[:3] not in ("ins", "del") or p not in out:
            continue
        ops = out[p]
        on = ops.get(op, 0)
        depth = sum(n for o, n in ops.items() if o[:3] != "ins")
        if op.startswith("del"):
            off = depth - on
        else:
            off = depth - min(on, depth)
        sc = rng.choice(scale_choices)
        table[(p, op)] = [max(0, int(round(off * sc))), int(round(on * sc))]
    return out, table
