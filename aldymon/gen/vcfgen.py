"""VCF writer for the VCF-input workloads: standard left-anchored records for catalogued variants."""
import os


def records_for(gene, ref, m, mnp_style="one"):
    """VCF records [(pos1, REF, [ALT])] spelling a loaded variant against the genome reference.
    mnp_style: 'one' (one record) or 'adjacent' (one record per changed base)."""
    P, op = m[0], m[1]
    if ">" in op:
        l, r = op.split(">")
        if len(l) == 1:
            return [(P + 1, ref.base(P), [r])]
        changed = [k for k in range(len(l)) if l[k] != "."]
        if mnp_style == "adjacent":
            return [(P + k + 1, ref.base(P + k), [r[k]]) for k in changed]
        refseq = ref.slice(P, P + len(l))
        alt = "".join(r[k] if l[k] != "." else refseq[k] for k in range(len(l)))
        return [(P + 1, refseq, [alt])]
    if op.startswith("ins"):
        return [(P + 1, ref.base(P), [ref.base(P) + op[3:]])]
    if op.startswith("del") and "ins" not in op[3:]:
        n = len(op) - 3
        return [(P, ref.base(P - 1) + ref.slice(P, P + n), [ref.base(P - 1)])]
    return []


def write_vcf(path, chrom, contig_len, records, samples=("S1",)):
    """records: [(pos1, REF, [ALT...], [GT string per sample])]; returns the bgzipped, indexed path."""
    import pysam

    records = sorted(records, key=lambda r: (r[0], r[1]))
    with open(path, "w") as f:
        f.write("##fileformat=VCFv4.2\n")
        f.write(f"##contig=<ID={chrom},length={contig_len}>\n")
        f.write('##FORMAT=<ID=GT,Number=1,Type=String,Description="Genotype">\n')
        f.write("#CHROM\tPOS\tID\tREF\tALT\tQUAL\tFILTER\tINFO\tFORMAT\t" + "\t".join(samples) + "\n")
        for pos1, ref, alts, gts in records:
            f.write(f"{chrom}\t{pos1}\t.\t{ref}\t{','.join(alts)}\t50\tPASS\t.\tGT\t" + "\t".join(gts) + "\n")
    gz = path + ".gz"
    for p in (gz, gz + ".tbi"):
        if os.path.exists(p):
            os.remove(p)
    pysam.tabix_index(path, preset="vcf", force=True)
    return gz
