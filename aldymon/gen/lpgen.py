"""Random small ILP models of the shape aldy builds, constructed through the real
aldy.lpinterface.model() API, together with an independent *semantic* description that can be
evaluated exhaustively over all assignments of the primary binaries.
"""
import itertools


def gen_spec(rng):
    """JSON-able description of a random model."""
    n = rng.randint(2, 8)
    spec = {"n": n, "order": [], "card": [], "prods": [], "errs": [], "cost": [], "gap": rng.choice([0, 0, 0.1, 0.5])}
    # ordering chains b[j] <= b[i]
    for _ in range(rng.randint(0, 3)):
        i, j = rng.sample(range(n), 2)
        spec["order"].append([i, j])
    # cardinality constraints over subsets
    for _ in range(rng.randint(0, 2)):
        k = rng.randint(1, n)
        sub = sorted(rng.sample(range(n), k))
        kind = rng.choice(["eq", "le", "ge"])
        spec["card"].append([sub, kind, rng.randint(0, min(k, 3))])
    # products of 1..4 factors
    for _ in range(rng.randint(0, 3)):
        k = rng.randint(1, min(4, n))
        spec["prods"].append(sorted(rng.sample(range(n), k)))
    # error terms: sum a_i x_i + e == t   (x over primaries and products)
    nx = n + len(spec["prods"])
    for _ in range(rng.randint(1, 5)):
        k = rng.randint(1, min(4, nx))
        idx = sorted(rng.sample(range(nx), k))
        coef = [rng.choice([1, 1, 1, -1, 2]) for _ in idx]
        t = round(rng.uniform(-0.5, 3.0), 2)
        w = rng.choice([1, 1, 1, 2.0, 0.5, 0.1, 0])
        lim = rng.choice([None, None, None, round(rng.uniform(0.5, 3), 1)])
        # optional continuous slack in [0, 1] with a cost (a non-binary variable with binary-looking bounds)
        slack = rng.choice([None, None, None, 0.3, 1.5])
        # one-sided error terms (lower or upper bound exactly 0) and slack variables with other bounds / integer type
        side = rng.choice([None, None, None, None, "pos", "neg"])
        slack_ub = rng.choice([1, 1, 1, 0, 2])
        slack_int = slack_ub != 1 and rng.random() < 0.5
        spec["errs"].append({"idx": idx, "coef": coef, "t": t, "w": w, "lim": lim, "slack": slack, "side": side,
                             "slack_ub": slack_ub, "slack_int": slack_int})
    spec["cost"] = [rng.choice([0, 0, 0.1, 0.5, 1.0, 21.0]) for _ in range(nx)]
    spec["names"] = rng.choice(["plain", "aldy"])
    # staged construction: part of the model is built and solved (a peek at its optimum, the variable list is
    # read), then the rest is added to the same instance before the enumeration
    spec["staged"] = rng.randint(1, n - 1) if rng.random() < 0.25 else None
    return spec


def err_bounds(e, inf):
    lim = e["lim"]
    lo, hi = (-inf, inf) if lim is None else (-lim, lim)
    if e.get("side") == "pos":
        lo = 0
    elif e.get("side") == "neg":
        hi = 0
    return lo, hi


def build(spec, solver="any"):
    """Build the model through aldy's interface. Returns (model, primaries, products, err vars)."""
    import aldy.lpinterface as lpi

    m = lpi.model("AldyGen", solver)
    n = spec["n"]
    if spec.get("names") == "aldy":
        bn = [f"A_{i % 3 + 1}.00{i}#x_{i // 3}" for i in range(n)]
    else:
        bn = [f"B{i}" for i in range(n)]
    k0 = spec.get("staged")
    if k0:
        b = [m.addVar(vtype="B", name=bn[i]) for i in range(k0)]
        for i, j in spec["order"]:
            if i < k0 and j < k0:
                m.addConstr(b[j] <= b[i], name=f"CORD_{i}_{j}")
        m.setObjective(m.quicksum((1 + i) * v for i, v in enumerate(b)))
        m.solve()
        [m.varName(v) for v in m.variables() if m.is_binary(v)]
        b += [m.addVar(vtype="B", name=bn[i]) for i in range(k0, n)]
    else:
        b = [m.addVar(vtype="B", name=bn[i]) for i in range(n)]
    for i, j in spec["order"]:
        if k0 and i < k0 and j < k0:
            continue
        m.addConstr(b[j] <= b[i], name=f"CORD_{i}_{j}")
    for sub, kind, k in spec["card"]:
        e = m.quicksum(b[i] for i in sub)
        if kind in ("eq", "le"):
            m.addConstr(e <= k, name="CCARD")
        if kind in ("eq", "ge"):
            m.addConstr(e >= k, name="CCARD")
    prods = []
    for pi, fac in enumerate(spec["prods"]):
        r = m.addVar(vtype="B", name=f"MUL_{pi}")
        m.prod(r, [b[i] for i in fac])
        prods.append(r)
    x = b + prods
    errs = []
    slack_cost = []
    for ei, e in enumerate(spec["errs"]):
        lo, hi = err_bounds(e, m.INF)
        v = m.addVar(lb=lo, ub=hi, name=f"E_{ei}_T>A")
        expr = m.quicksum(c * x[i] for i, c in zip(e["idx"], e["coef"]))
        if e.get("slack") is not None:
            if e.get("slack_int"):
                sv = m.addVar(vtype="I", lb=0, ub=e.get("slack_ub", 1), name=f"S_{ei}")
            else:
                sv = m.addVar(lb=0, ub=e.get("slack_ub", 1), name=f"S_{ei}")
            expr = expr + sv
            slack_cost.append(e["slack"] * sv)
        m.addConstr(expr + v <= e["t"], name=f"CFUNC_{ei}")
        m.addConstr(expr + v >= e["t"], name=f"CFUNC_{ei}")
        errs.append(v)
    coeffs = {m.varName(v): e["w"] for v, e in zip(errs, spec["errs"])}
    obj = m.abssum(errs, coeffs=coeffs)
    if slack_cost:
        obj += m.quicksum(slack_cost)
    obj += m.quicksum(c * v for c, v in zip(spec["cost"], x) if c)
    m.setObjective(obj)
    return m, b, prods, errs


def semantic_table(spec, names_b, names_p):
    """{tuple(sorted active binary names): objective} over all feasible assignments, from the
    meaning of the model (products = AND, helper = absolute value), not from its constraints."""
    n = spec["n"]
    table = {}
    for bits in itertools.product((0, 1), repeat=n):
        if any(bits[j] > bits[i] for i, j in spec["order"]):
            continue
        ok = True
        for sub, kind, k in spec["card"]:
            s = sum(bits[i] for i in sub)
            if (kind == "eq" and s != k) or (kind == "le" and s > k) or (kind == "ge" and s < k):
                ok = False
                break
        if not ok:
            continue
        pv = [int(all(bits[i] for i in fac)) for fac in spec["prods"]]
        x = list(bits) + pv
        obj = 0.0
        for e in spec["errs"]:
            base = e["t"] - sum(c * x[i] for i, c in zip(e["idx"], e["coef"]))
            lo, hi = err_bounds(e, float("inf"))
            if e.get("slack") is None:
                cands = [0.0]
            else:
                ub = e.get("slack_ub", 1)
                # feasible slack values: err = base - s in [lo, hi]  and  0 <= s <= ub
                a, z = max(0.0, base - hi), min(float(ub), base - lo)
                if e.get("slack_int"):
                    cands = [float(k) for k in range(ub + 1)]
                elif a > z + 1e-12:
                    cands = []
                else:
                    cands = [a, z, min(z, max(a, base))]  # convex piecewise-linear: end points or the kink
            best = None
            for sv in cands:
                err = base - sv
                if err < lo - 1e-9 or err > hi + 1e-9:
                    continue
                val = e["w"] * abs(err) + (e["slack"] or 0) * sv
                best = val if best is None else min(best, val)
            if best is None:
                ok = False
                break
            obj += best
        if not ok:
            continue
        obj += sum(c * v for c, v in zip(spec["cost"], x))
        active = [names_b[i] for i in range(n) if bits[i]] + [names_p[i] for i, v in enumerate(pv) if v]
        table[tuple(sorted(active))] = obj
    return table
