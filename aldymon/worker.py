"""Worker subprocess: runs a shard of cases for one property and writes one JSON line per case."""
import json
import os
import signal
import sys
import time
import traceback


class CaseTimeout(Exception):
    pass


def _alarm(signum, frame):
    raise CaseTimeout()


def main():
    pid, shard_file, out_file, case_timeout = sys.argv[1:5]
    case_timeout = int(case_timeout)
    import importlib

    from . import util

    util.import_aldy()
    prop = importlib.import_module(f"aldymon.props.{pid.lower()}")
    with open(shard_file) as f:
        shard = json.load(f)
    signal.signal(signal.SIGALRM, _alarm)
    with open(out_file, "w") as out:
        for i, case in shard:
            t0 = time.time()
            rec = {"i": i}
            try:
                signal.alarm(case_timeout)
                res = prop.run(case)
                signal.alarm(0)
                rec.update(res.to_json())
            except CaseTimeout:
                rec.update(
                    {"clauses": {}, "counters": {"case_timeouts": 1}, "disc": [],
                     "inconclusive": f"!case exceeded {case_timeout}s watchdog",
                     "fp": None, "nontrivial": False, "sample": None}
                )
            except BaseException:
                signal.alarm(0)
                rec["error"] = traceback.format_exc()
            rec["t"] = round(time.time() - t0, 3)
            out.write(json.dumps(rec, default=str) + "\n")
            out.flush()
            if hasattr(prop, "cleanup_case"):
                try:
                    prop.cleanup_case()
                except Exception:
                    pass
    os._exit(0)


if __name__ == "__main__":
    main()
