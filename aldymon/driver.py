"""check entry point: plan cases, shard them over worker subprocesses, merge, decide, write evidence.

Exit codes: 0 held on everything observed (known findings printed), 1 violation,
2 inconclusive (a deciding monitor was not reached, a worker died, ...).
"""
import argparse
import collections
import importlib
import json
import os
import shutil
import subprocess
import sys
import time

from . import util

PY = sys.executable


def _load_prop(pid):
    return importlib.import_module(f"aldymon.props.{pid.lower()}")


def _env(scratch, extra=None):
    env = dict(os.environ)
    env["PYTHONPATH"] = os.pathsep.join(
        [util.VERIF, os.path.join(util.VERIF, ".deps")]
        + ([env["PYTHONPATH"]] if env.get("PYTHONPATH") else [])
    )
    env.setdefault("PYTHONHASHSEED", "0")
    env["ALDY_VERIF"] = "1"
    env["ALDYMON_SCRATCH"] = scratch
    env["TMPDIR"] = scratch
    env["PYTHONWARNINGS"] = "ignore"
    env["PYTHONDONTWRITEBYTECODE"] = "1"
    if extra:
        env.update(extra)
    return env


def run_workers(pid, cases, jobs, scratch, case_timeout, total_timeout):
    """Run the cases in `jobs` subprocesses; returns (results by index, problems)."""
    jobs = max(1, min(jobs, len(cases)))
    shards = [[] for _ in range(jobs)]
    for i, c in enumerate(cases):
        shards[i % jobs].append((i, c))
    procs = []
    for k, shard in enumerate(shards):
        wdir = os.path.join(scratch, f"w{k}")
        os.makedirs(wdir, exist_ok=True)
        sf = os.path.join(scratch, f"shard{k}.json")
        of = os.path.join(scratch, f"out{k}.jsonl")
        with open(sf, "w") as f:
            json.dump(shard, f)
        p = subprocess.Popen(
            [PY, "-X", "faulthandler", "-m", "aldymon.worker", pid, sf, of,
             str(case_timeout)],
            env=_env(wdir),
            cwd=util.VERIF,
            stdout=subprocess.DEVNULL,
            stderr=open(os.path.join(scratch, f"err{k}.txt"), "w"),
        )
        procs.append((k, p, of, shard))
    deadline = time.time() + total_timeout
    problems = []
    for k, p, of, shard in procs:
        try:
            p.wait(timeout=max(1, deadline - time.time()))
        except subprocess.TimeoutExpired:
            p.kill()
            p.wait()
            problems.append(f"worker {k} exceeded the wall-clock watchdog")
    results = {}
    for k, p, of, shard in procs:
        if os.path.exists(of):
            with open(of) as f:
                for line in f:
                    try:
                        r = json.loads(line)
                    except ValueError:
                        continue
                    results[r["i"]] = r
        if p.returncode not in (0, None) and p.returncode != -9:
            tail = ""
            try:
                with open(os.path.join(scratch, f"err{k}.txt")) as f:
                    tail = f.read()[-1500:]
            except OSError:
                pass
            problems.append(f"worker {k} exited with {p.returncode}: {tail}")
        missing = [i for i, _ in shard if i not in results]
        if missing and p.returncode == 0:
            problems.append(f"worker {k} lost cases {missing[:5]}")
    return results, problems


def decide(pid, prop, cases, results, problems, tier, seed, wall, out_dir, replay=False):
    known = [
        k for k in util.load_known_findings() if k["property"] == pid
    ]
    known_open = {k["key"]: k for k in known if k.get("status", "known") == "known"}

    clauses = collections.Counter()
    counters = collections.Counter()
    fps = set()
    samples = []
    violations = []
    known_seen = collections.Counter()
    inconcl = list(problems)
    errors = 0
    for i in sorted(results):
        r = results[i]
        if r.get("error"):
            errors += 1
            if len(inconcl) < 8:
                inconcl.append(f"case {i} raised: {r['error'][-600:]}")
            continue
        for c, n in r["clauses"].items():
            clauses[c] += n
        for c, n in r["counters"].items():
            counters[c] += n
        if r.get("inconclusive"):
            counters["inconclusive_cases"] += 1
            if len(inconcl) < 8 and r["inconclusive"].startswith("!"):
                inconcl.append(f"case {i}: {r['inconclusive']}")
        if r.get("nontrivial") and r.get("fp"):
            fps.add(r["fp"])
        if r.get("sample") is not None and len(samples) < 4:
            samples.append(r["sample"])
        for d in r["disc"]:
            if d.get("mech") in known_open:
                known_seen[d["mech"]] += 1
            else:
                violations.append((i, d))
    missing = [i for i in range(len(cases)) if i not in results]
    if missing and not problems:
        inconcl.append(f"{len(missing)} cases produced no result")

    # minimum evaluations per clause: a deciding monitor that never ran is inconclusive
    mins = getattr(prop, "MIN", {}).get(tier, {}) if not replay else {}
    for c, n in mins.items():
        if clauses.get(c, 0) < n:
            inconcl.append(f"clause {c} evaluated {clauses.get(c, 0)} < {n} times")

    os.makedirs(out_dir, exist_ok=True)
    if not replay:
        import glob

        for old in glob.glob(os.path.join(out_dir, f"replay-{pid}-{tier}-{seed}-*.json")):
            os.remove(old)
    lines = []
    for key, k in known_open.items():
        lines.append(
            f"KNOWN-FINDING: property={pid} {key}: {k['what']} "
            f"(observed {known_seen.get(key, 0)}x in this run)"
        )
    replay_paths = []
    seen_v = set()
    for i, d in violations:
        sig = (d["clause"], d.get("mech"), d.get("what", "")[:60])
        if sig in seen_v and len(replay_paths) >= 5:
            continue
        seen_v.add(sig)
        if len(replay_paths) >= 20:
            break
        path = os.path.join(out_dir, f"replay-{pid}-{tier}-{seed}-{len(replay_paths)}.json")
        with open(path, "w") as f:
            json.dump(
                {"property": pid, "tier": tier, "seed": seed, "case": cases[i],
                 "discrepancy": d}, f, indent=1, default=str)
        replay_paths.append(path)
        lines.append(f"VIOLATION property={pid} replay={path}")
        lines.append(f"  clause={d['clause']} what={d.get('what', '')[:300]}")

    vsum = collections.Counter(
        (d["clause"], str(d.get("mech")), cases[i].get("route", "") if isinstance(cases[i], dict) else "")
        for i, d in violations
    )
    for (c, m, rt), n in vsum.most_common(25):
        lines.append(f"  violation-summary clause={c} mech={m} route={rt} n={n}")
    cov = {
        "evaluations": len([r for r in results.values() if not r.get("error")]),
        "distinct_nontrivial": len(fps),
        "rule": getattr(prop, "RULE", ""),
        "samples": samples or [{"note": "no sample recorded"}],
        "clause_evaluations": dict(clauses),
        "counters": dict(counters),
        "known_findings_seen": dict(known_seen),
        "cases_planned": len(cases),
        "case_errors": errors,
        "inconclusive_reasons": inconcl[:8],
        "exhaustive": bool(getattr(prop, "EXHAUSTIVE", False)),
        "slowest_cases": [
            {"case": {k: v for k, v in cases[i].items() if not isinstance(v, (dict, list))}
             if isinstance(cases[i], dict) else i, "seconds": results[i].get("t")}
            for i in sorted(results, key=lambda j: -(results[j].get("t") or 0))[:3]
        ],
    }
    if hasattr(prop, "summarize"):
        try:
            cov.update(prop.summarize([r for r in results.values() if not r.get("error")]))
        except Exception as e:  # summaries are informative only
            cov["summarize_error"] = repr(e)
    ev = {
        "property_id": pid,
        "tier": tier,
        "seed": seed,
        "level": "exploration",
        "coverage": cov,
        "assumptions": getattr(prop, "ASSUMPTIONS", []),
        "wall_s": round(wall, 2),
        "violations": len(violations),
        "verdict": "violated" if violations else ("inconclusive" if inconcl else "held"),
        "repo": util.REPO,
    }
    return ev, lines, (1 if violations else (2 if inconcl else 0)), inconcl


def main(argv=None):
    ap = argparse.ArgumentParser(prog="check")
    ap.add_argument("property")
    ap.add_argument("tier", nargs="?", default=os.environ.get("VERIF_TIER", "quick"))
    ap.add_argument("--replay")
    ap.add_argument("--jobs", type=int, default=int(os.environ.get("VERIF_JOBS", "0")))
    ap.add_argument("--limit", type=int, default=0, help="debug: only the first K cases")
    ap.add_argument("--no-evidence", action="store_true")
    args = ap.parse_args(argv)
    pid = args.property.upper()
    tier = args.tier if args.tier in ("quick", "thorough") else "quick"
    seed = int(os.environ.get("VERIF_SEED", "0") or 0)
    jobs = args.jobs or min(16, os.cpu_count() or 4)
    prop = _load_prop(pid)

    scratch = f"/dev/shm/aldyverif-{os.getpid()}"
    shutil.rmtree(scratch, ignore_errors=True)
    os.makedirs(scratch)
    os.environ["ALDYMON_SCRATCH"] = scratch
    t0 = time.time()
    try:
        if args.replay:
            with open(args.replay) as f:
                rp = json.load(f)
            cases = [rp["case"]]
            tier = rp.get("tier", tier)
            seed = rp.get("seed", seed)
            jobs = 1
        else:
            cases = prop.plan(tier, seed)
            if args.limit:
                cases = cases[: args.limit]
        ct = getattr(prop, "CASE_TIMEOUT", {}).get(tier, 300)
        tt = getattr(prop, "TOTAL_TIMEOUT", {}).get(tier, 3600)
        results, problems = run_workers(pid, cases, jobs, scratch, ct, tt)
        wall = time.time() - t0
        out_dir = os.path.join(util.VERIF, "out")
        if util.REPO != "/repo":
            out_dir = os.path.join(out_dir, "scratch-" + os.path.basename(util.REPO.rstrip("/")))
        ev, lines, code, inconcl = decide(
            pid, prop, cases, results, problems, tier, seed, wall, out_dir, replay=bool(args.replay)
        )
        if not args.replay and not args.no_evidence and util.REPO == "/repo":
            os.makedirs(os.path.join(util.VERIF, "evidence"), exist_ok=True)
            with open(os.path.join(util.VERIF, "evidence", f"{pid}.json"), "w") as f:
                json.dump(ev, f, indent=1, default=str)
        for ln in lines:
            print(ln)
        cov = ev["coverage"]
        print(
            f"[{pid} {tier} seed={seed}] cases={cov['evaluations']}/{len(cases)} "
            f"distinct_nontrivial={cov['distinct_nontrivial']} "
            f"clauses={sum(cov['clause_evaluations'].values())} "
            f"violations={ev['violations']} wall={wall:.1f}s verdict={ev['verdict']}"
        )
        if args.replay:
            for r in results.values():
                print(json.dumps(r, indent=1, default=str)[:6000])
        if code == 2:
            for m in inconcl[:8]:
                print(f"INCONCLUSIVE property={pid} {m[:1200]}")
        elif inconcl:
            for m in inconcl[:3]:
                print(f"note: also inconclusive: {m[:1200]}")
        return code
    finally:
        shutil.rmtree(scratch, ignore_errors=True)


if __name__ == "__main__":
    sys.exit(main())
