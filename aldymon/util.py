"""Shared helpers: locating the tree under test, results, scratch space, RNG."""
import collections
import hashlib
import json
import os
import random
import sys
import warnings

VERIF = os.path.dirname(os.path.dirname(os.path.abspath(__file__)))
REPO = os.path.abspath(os.environ.get("ALDY_REPO", "/repo"))

_imported = False


def import_aldy():
    """Import aldy from the tree under test (ALDY_REPO or /repo) and silence its logger."""
    global _imported
    if _imported:
        import aldy

        return aldy
    warnings.filterwarnings("ignore")
    if REPO not in sys.path:
        sys.path.insert(0, REPO)
    import aldy

    got = os.path.dirname(os.path.dirname(os.path.abspath(aldy.__file__)))
    if got != REPO:
        raise RuntimeError(f"aldy imported from {got}, expected {REPO}")
    import logbook

    logbook.NullHandler().push_application()
    _imported = True
    return aldy


def scratch_dir():
    """Per-process scratch directory (RAM-backed, lower-case path)."""
    d = os.environ.get("ALDYMON_SCRATCH")
    if not d:
        d = f"/dev/shm/aldyverif-{os.getpid()}"
    os.makedirs(d, exist_ok=True)
    return d


def rng_for(*parts):
    h = hashlib.sha256("/".join(str(p) for p in parts).encode()).digest()
    return random.Random(int.from_bytes(h[:8], "big"))


def fingerprint(obj):
    return hashlib.sha1(
        json.dumps(obj, sort_keys=True, default=str).encode()
    ).hexdigest()[:16]


def jsonable(o, depth=0):
    """Best-effort conversion of witnesses to JSON."""
    if depth > 8:
        return str(o)
    if isinstance(o, (str, int, float, bool)) or o is None:
        return o
    if isinstance(o, dict):
        return {str(k): jsonable(v, depth + 1) for k, v in o.items()}
    if isinstance(o, (list, tuple, set, frozenset)):
        items = list(o)
        if isinstance(o, (set, frozenset)):
            try:
                items = sorted(items)
            except TypeError:
                items = sorted(items, key=str)
        return [jsonable(v, depth + 1) for v in items]
    return str(o)


class Res:
    """Result of one executed case: which clauses were evaluated and what went wrong."""

    def __init__(self):
        self.clauses = collections.Counter()
        self.counters = collections.Counter()
        self.disc = []
        self.fp = None
        self.nontrivial = False
        self.sample = None
        self.inconclusive = None

    def check(self, clause, cond, what="", mech=None, **witness):
        """Evaluate one clause instance; record a discrepancy if it does not hold."""
        self.clauses[clause] += 1
        if not cond:
            self.disc.append(
                {
                    "clause": clause,
                    "what": what,
                    "mech": mech,
                    "witness": jsonable(witness),
                }
            )
        return bool(cond)

    def seen(self, clause, n=1):
        self.clauses[clause] += n

    def count(self, name, n=1):
        self.counters[name] += n

    def to_json(self):
        return {
            "clauses": dict(self.clauses),
            "counters": dict(self.counters),
            "disc": self.disc,
            "fp": self.fp,
            "nontrivial": self.nontrivial,
            "sample": jsonable(self.sample),
            "inconclusive": self.inconclusive,
        }


def load_known_findings():
    p = os.path.join(VERIF, "known_findings.json")
    if not os.path.exists(p):
        return []
    with open(p) as f:
        return json.load(f)["findings"]


def run_main(argv):
    """Run aldy's CLI entry point in-process; pop the stderr log handlers it pushes and never pops."""
    import logbook
    import logbook.more
    from aldy.__main__ import main

    pushed = []
    cls = logbook.more.ColorizedStderrHandler
    orig = cls.push_application

    def push(self):
        pushed.append(self)
        orig(self)

    cls.push_application = push
    orig_fh = logbook.FileHandler.push_application

    def push_fh(self):
        pushed.append(self)
        orig_fh(self)

    logbook.FileHandler.push_application = push_fh
    try:
        with open(os.devnull, "w") as devnull:
            old = sys.stderr
            sys.stderr = devnull
            try:
                return main(argv)
            finally:
                sys.stderr = old
    finally:
        cls.push_application = orig
        logbook.FileHandler.push_application = orig_fh
        for h in reversed(pushed):
            try:
                h.pop_application()
            except Exception:
                pass
            try:
                h.close()
            except Exception:
                pass


class Slow(Exception):
    """A single workload item exceeded its own (generous) wall-clock budget: counted, never a verdict."""


class time_limit:
    """with time_limit(30): ...   raises Slow; re-arms the enclosing worker watchdog afterwards."""

    def __init__(self, seconds):
        self.seconds = seconds

    def __enter__(self):
        import signal
        import time

        self.t0 = time.time()
        self.prev_handler = signal.getsignal(signal.SIGALRM)
        self.prev_left = signal.alarm(0)

        def handler(signum, frame):
            raise Slow()

        signal.signal(signal.SIGALRM, handler)
        signal.alarm(self.seconds)
        return self

    def __exit__(self, *a):
        import signal
        import time

        signal.alarm(0)
        signal.signal(signal.SIGALRM, self.prev_handler)
        if self.prev_left:
            left = max(1, int(self.prev_left - (time.time() - self.t0)))
            signal.alarm(left)
        return False
