"""Reference evaluator of the documented minor-allele refinement objective.

* score(assignment): fit error + penalties for dropped / added / novel core variants + read-phase
  disagreement of a given assignment (list of allele copies with the variants they carry).
* optimum(): for a fixed choice of minor alleles the objective without the phase term decomposes by
  position (every rule is per variant or per site), so the optimum is a sum of tiny local searches;
  with phase evidence a branch-and-bound over the per-position joint states is used (node cap).

Admissible set = the statement's rules plus the model's two technical caps (carriers of a variant <=
its supporting reads; the analogous cap at reference sites), so it is never larger than what the
model may choose from.
"""
import collections
import itertools

INF = float("inf")


class Copy:
    __slots__ = ("major", "minor", "own", "func")

    def __init__(self, gene, major, minor):
        self.major, self.minor = major, minor
        a = gene.alleles[major]
        self.own = frozenset(a.func_muts) | frozenset(a.minors[minor].neutral_muts)
        self.func = frozenset(m for m in self.own if gene.is_functional(m))


class MinorRef:
    def __init__(self, gene, coverage, major_sol, alleles_list, mutations):
        from aldy.gene import Mutation

        self.gene, self.cov, self.major_sol = gene, coverage, major_sol
        self.prof = coverage.profile
        cn = major_sol.cn_solution
        self.muts = sorted(mutations)
        self.mutset = set(self.muts)
        self.positions = sorted({m.pos for m in self.muts})
        self.by_pos = collections.defaultdict(list)
        for m in self.muts:
            self.by_pos[m.pos].append(m)
        self.obs, self.cnt = {}, {}
        from . import evidence

        for m in self.muts:
            self.obs[m] = evidence.observed_copies(coverage, cn, m)
            self.cnt[m] = evidence.support(coverage, m)
        self.obs_ref, self.refcnt, self.poscn = {}, {}, {}
        for p in self.positions:
            rm = Mutation(p, "_")
            self.obs_ref[p] = evidence.observed_copies(coverage, cn, rm)
            self.refcnt[p] = evidence.support(coverage, rm)
            self.poscn[p] = cn.position_cn(p)
        self.func = {m: gene.is_functional(m) for m in self.muts}
        self._cov_cache = {}
        # candidate copies in the model's construction order
        self.cands = []
        seen = set()
        for a in alleles_list:
            k = (a.major, a.minor)
            if k not in seen:
                seen.add(k)
                self.cands.append(k)
        self.n_allele_vars = 0
        for major, minor in self.cands:
            from aldy.solutions import SolvedAllele

            c = major_sol.solution.get(SolvedAllele(gene, major, "", [], []), 0) \
                if hasattr(major_sol.solution, "get") else 0
            self.n_allele_vars += max(1, c)
        self.modes = self._modes()
        self._local_cache = {}

    # ------------------------------------------------------------ helpers
    def hascov(self, major, pos):
        k = (major, pos)
        if k not in self._cov_cache:
            self._cov_cache[k] = self.gene.has_coverage(major, pos)
        return self._cov_cache[k]

    def _modes(self):
        cov = self.cov
        modes = collections.defaultdict(int)
        if not (self.prof.phase and cov.sam):
            return {}
        mut_pos = {m.pos for m in self.muts}
        for rr, rv in cov.sam.phases.items():
            c = sorted((k, v) for k, v in rv.items() if k in mut_pos)
            if len(c) > 1:
                modes[tuple(c)] += 1
        n_all = self.n_allele_vars
        if len(modes) * n_all > self.prof.minor_phase_vars:
            max_sample = len(modes) * (self.prof.minor_phase_vars / (len(modes) * n_all))
            skip = len(modes) / max_sample
            if max_sample < len(modes):
                mi = list(modes.items())
                modes = dict(mi[i] for i in range(0, len(mi), int(skip)))
        return dict(modes)

    def minor_choices(self):
        """All multisets of minor alleles matching the major solution."""
        per = []
        for sa, cnt in self.major_sol.solution.items():
            minors = [mi for (ma, mi) in self.cands if ma == sa.major]
            per.append([tuple((sa.major, mi) for mi in combo)
                        for combo in itertools.combinations_with_replacement(minors, cnt)])
        for parts in itertools.product(*per):
            yield [c for part in parts for c in part]

    # ------------------------------------------------------------ local (per position) evaluation
    def local_cost(self, pos, copies, carried):
        """Cost and feasibility at one position. copies: list of Copy; carried: list of sets (variants
        at this position each copy carries).  Returns cost or INF if a rule is violated."""
        prof = self.prof
        here = self.by_pos[pos]
        carriers = collections.Counter()
        for cs in carried:
            for m in cs:
                carriers[m] += 1
        cn0 = self.poscn[pos] == 0
        for m in here:
            k = carriers.get(m, 0)
            if cn0 or self.cnt[m] == 0:
                if k:
                    return INF
            elif k < 1 or k > self.cnt[m]:
                return INF
        expr, max_slots, any_slot = 0, 0, False
        ref_called = 0
        dropped = added = 0
        novel_core = set()
        for c, cs in zip(copies, carried):
            cov_here = self.hascov(c.major, pos)
            own_here = [m for m in here if m in c.own]
            add_here = [m for m in here if m not in c.own and cov_here]
            slots = len(own_here) + len(add_here)
            if slots:
                any_slot = True
            max_slots = max(max_slots, slots)
            expr += slots - len(cs)
            if len(cs) > 1 and slots > 1:
                return INF  # one variant per site and allele
            for m in cs:
                if m in c.own:
                    if not cov_here:
                        return INF
                else:
                    if not cov_here:
                        return INF
                    added += 1
                    if self.func[m]:
                        novel_core.add(m)
            for m in own_here:
                if m not in cs:
                    if m in c.func:
                        return INF  # core variants are never dropped
                    dropped += 1
            if cov_here:
                pm = [m for m in own_here if m.op[:3] != "ins"]
                if pm:
                    ref_called += 1 - (1 if pm[0] in cs else 0)
                else:
                    ref_called += 1 - sum(1 for m in cs if m not in c.own and m.op[:3] != "ins")
        if any_slot:
            if cn0:
                if expr > 0:
                    return INF
            elif expr > max(self.poscn[pos], self.refcnt[pos], max_slots):
                return INF
        cost = sum(abs(self.obs[m] - carriers.get(m, 0)) for m in here)
        cost += abs(self.obs_ref[pos] - ref_called)
        cost += prof.minor_miss * dropped + prof.minor_add * added + prof.minor_add / 2 * len(novel_core)
        return cost

    def local_states(self, pos, copies):
        """All joint states (tuple of carried-sets, cost) at a position, at most one variant per copy."""
        key = (pos, tuple((c.major, tuple(sorted(m for m in c.own if m.pos == pos))) for c in copies))
        if key in self._local_cache:
            return self._local_cache[key]
        here = self.by_pos[pos]
        opts = []
        for c in copies:
            o = [frozenset()]
            if self.hascov(c.major, pos):
                o += [frozenset([m]) for m in here]
            opts.append(o)
        out = []
        for st in itertools.product(*opts):
            cost = self.local_cost(pos, copies, st)
            if cost < INF:
                out.append((cost, st))
        out.sort(key=lambda x: x[0])
        self._local_cache[key] = out
        return out

    # ------------------------------------------------------------ phase term
    def phase_cost(self, copies, carried_all):
        """carried_all: list (per copy) of sets of all carried variants. INF if a read-mode cannot be
        assigned to any called allele."""
        if not self.modes:
            return 0.0
        total = 0.0
        cand_majors = {ma for ma, _ in self.cands}
        for mode, cnt in self.modes.items():
            r = dict(mode)

            def relevant(major):
                return [m for m in self.muts if m.pos in r and self.hascov(major, m.pos)]

            elig_any = any(len(relevant(ma)) > 1 for ma in cand_majors)
            best = None
            for c, cs in zip(copies, carried_all):
                rel = relevant(c.major)
                if len(rel) <= 1:
                    continue
                mis = 0
                for m in rel:
                    has = m in cs
                    if m.op == r[m.pos]:
                        mis += 0 if has else 1
                    else:
                        mis += 1 if has else 0
                best = mis if best is None else min(best, mis)
            if best is None:
                if elig_any:
                    return INF
                continue
            total += cnt * best
        return self.prof.minor_phase * total

    # ------------------------------------------------------------ public
    def score(self, assignment):
        """assignment: list of (major, minor, carried set).  Model objective (without tie-breaker)."""
        copies = [Copy(self.gene, ma, mi) for ma, mi, _ in assignment]
        total = 0.0
        for pos in self.positions:
            carried = [frozenset(m for m in cs if m.pos == pos) for _, _, cs in assignment]
            c = self.local_cost(pos, copies, carried)
            if c == INF:
                return INF
            total += c
        # carried variants outside the considered set cannot be scored
        for _, _, cs in assignment:
            if any(m not in self.mutset for m in cs):
                return INF
        return total + self.phase_cost(copies, [set(cs) for _, _, cs in assignment])

    def optimum(self, upper=INF, node_cap=200000, choice_cap=20000):
        """Minimum objective over all admissible assignments (None if the search was cut).
        `upper`: only values below it matter (used for pruning)."""
        best = INF
        best_w = None
        nodes = 0
        nchoices = 0
        for choice in self.minor_choices():
            nchoices += 1
            if nchoices > choice_cap:
                return None, None
            copies = [Copy(self.gene, ma, mi) for ma, mi in choice]
            per_pos = []
            lb = 0.0
            feas = True
            for pos in self.positions:
                st = self.local_states(pos, copies)
                if not st:
                    feas = False
                    break
                per_pos.append(st)
                lb += st[0][0]
            if not feas:
                continue
            bound = min(best, upper)
            if lb >= bound - 1e-12:
                continue
            if not self.modes:
                if lb < best:
                    best = lb
                    best_w = (choice, [s[0][1] for s in per_pos])
                continue
            # branch and bound over positions
            suffix = [0.0] * (len(per_pos) + 1)
            for i in range(len(per_pos) - 1, -1, -1):
                suffix[i] = suffix[i + 1] + per_pos[i][0][0]
            stack = [(0, 0.0, [])]
            while stack:
                i, acc, chosen = stack.pop()
                nodes += 1
                if nodes > node_cap:
                    return None, None
                bound = min(best, upper)
                if acc + suffix[i] >= bound - 1e-12:
                    continue
                if i == len(per_pos):
                    carried_all = [set() for _ in copies]
                    for st in chosen:
                        for k, cs in enumerate(st):
                            carried_all[k] |= cs
                    tot = acc + self.phase_cost(copies, carried_all)
                    if tot < best:
                        best = tot
                        best_w = (choice, chosen)
                    continue
                for cost, st in reversed(per_pos[i]):
                    if acc + cost + suffix[i + 1] < bound - 1e-12:
                        stack.append((i + 1, acc + cost, chosen + [st]))
        if best == INF:
            return INF, None
        return best, best_w
