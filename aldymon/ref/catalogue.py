"""Independent model of a gene database, rebuilt directly from the YAML: RefSeq<->genome maps,
regions, written variants per allele, functional / silent split, structural markers, sequence-level
semantics of variants.
"""
import collections

import yaml

COMP = {"A": "T", "C": "G", "G": "C", "T": "A", "N": "N", ".": "."}
CODON = None


def revcomp(s):
    return "".join(COMP.get(c, c) for c in reversed(s))


def _codon_table():
    global CODON
    if CODON is None:
        bases = "TCAG"
        aas = "FFLLSSSSYYXXCCXWLLLLPPPPHHQQRRRRIIIMTTTTNNKKSSRRVVVVAAAADDEEGGGG"
        CODON = {a + b + c: aas[16 * i + 4 * j + k]
                 for i, a in enumerate(bases) for j, b in enumerate(bases) for k, c in enumerate(bases)}
    return CODON


def translate(seq):
    t = _codon_table()
    return "".join(t.get(seq[i: i + 3], "?") for i in range(0, len(seq) - len(seq) % 3, 3))


def allele_name(x):
    if "*" in x:
        x = x.split("*", 1)[1]
    return x.replace("/", "_")


class YamlModel:
    def __init__(self, yml, genome):
        if isinstance(yml, str):
            yml = yaml.safe_load(yml)
        self.y = yml
        self.genome = genome
        self.name = yml["name"]
        ref = yml["reference"]
        seq = ref["seq"].replace("\n", "")
        if "patches" in ref:
            s = list(seq)
            for pos, nuc in ref["patches"]:
                s[pos - 1] = nuc
            seq = "".join(s)
        self.seq = seq
        self.chr, self.start1, self.end1, strand, cigar = ref["mappings"][genome]
        self.strand = 1 if strand == "+" else -1
        self.blocks = [(c[0], int(c[1:])) for c in cigar.split()]
        self.r2c, self.c2r = {}, {}
        pr = 0 if self.strand > 0 else len(seq) - 1
        pc = self.start1 - 1
        for op, n in self.blocks:
            if op == "M":
                for k in range(n):
                    self.r2c[pr + k * self.strand] = pc + k
                    self.c2r[pc + k] = pr + k * self.strand
                pc += n
                pr += n * self.strand
            elif op == "I":
                pr += n * self.strand
            elif op == "D":
                pc += n
        self.end0 = pc
        # documented exon coordinates: [s, e] -> RefSeq [s-1, e-1)
        self.exons = sorted((s - 1, e - 1) for s, e in ref["exons"])
        self.protein = translate("".join(self.seq[s:e] for s, e in self.exons))
        self.genes = yml["structure"]["genes"]
        self.pseudogenes = self.genes[1:]
        # regions (0-based half-open genome intervals), introns derived between consecutive exons
        self.regions = []
        for gi, _ in enumerate(self.genes):
            regs = {}
            nex = 0
            for rn, coord in yml["structure"]["regions"][genome].items():
                if rn[0] == "e" and rn[1:].isdigit():
                    nex += 1
                regs[rn] = (coord[2 * gi] - 1, coord[2 * gi + 1] - 1)
            for e in range(1, nex):
                a, b = regs[f"e{e}"], regs[f"e{e + 1}"]
                lo, hi = (a, b) if self.strand > 0 else (b, a)
                regs[f"i{e}"] = (lo[1], hi[0])
            order = sorted(regs, key=lambda r: regs[r])
            if self.strand < 0:
                order = order[::-1]
            self.regions.append(collections.OrderedDict((r, regs[r]) for r in order))
        self.cn_regions = yml["structure"]["cn_regions"]
        self.tandems = [tuple(t) for t in yml["structure"].get("tandems", [])]
        # alleles as written
        self.first_info = {}  # (pos1, op) -> (function, rsid) of the first occurrence in file order
        self.alleles = collections.OrderedDict()
        raw = yml["alleles"]

        def note(pos, op, info):
            if isinstance(pos, int):
                fn = info[1] if len(info) > 1 else None
                rs = info[0] if info else "-"
                self.first_info.setdefault((pos, op), (fn, rs))

        for pos, op, *info in raw.get("random", []):
            if not (isinstance(pos, str) and pos == "ignored"):
                note(pos, op, info)
        for gname, muts in raw.get("groups", {}).items():
            for pos, op, *info in muts:
                note(pos, op, info)
        for key, a in raw.items():
            if key in ("random", "groups"):
                continue
            if a.get("ignored", False):
                continue
            nm = allele_name(key)
            rec = {"name": nm, "label": allele_name(a["label"]) if a.get("label") else None,
                   "variants": [], "struct": None}
            if [self.name, "deletion"] in a["mutations"]:
                rec["struct"] = ("deletion", None)
            else:
                for pos, op, *info in a["mutations"]:
                    if isinstance(pos, str) and pos == "ignored":
                        continue
                    if pos == self.name and op.startswith("deletion:"):
                        rec["struct"] = ("custom", tuple(op[9:].split(",")))
                    elif pos in self.pseudogenes:
                        if op[-1] == "-":
                            rec["struct"] = ("left", op[:-1])
                        else:
                            rec["struct"] = ("right", op[:-1] if op[-1] == "+" else op)
                    elif pos == self.name and op in raw.get("groups", {}):
                        continue
                    else:
                        note(pos, op, info)
                        rec["variants"].append((pos, op))
            self.alleles[nm] = rec

    # ---------------------------------------------------------------- variant geometry
    def span(self, pos1, op):
        """0-based half-open RefSeq interval of reference bases a written variant touches
        (insertion: the two flanking bases)."""
        i = pos1 - 1
        if ">" in op:
            return i, i + len(op.split(">")[0])
        if op.startswith("ins"):
            return i, i + 2
        return i, i + len(op[3:].split("ins")[0])

    def mappable(self, pos1, op):
        """aldy keeps a variant iff its (strand-converted) key position is aligned."""
        return self.key_refpos(pos1, op) in self.r2c

    def key_refpos(self, pos1, op):
        """0-based RefSeq index of the base whose genome position is the variant's key."""
        if self.strand > 0:
            return pos1 - 1
        if ">" in op:
            return pos1 + len(op.split(">")[0]) - 1 - 1
        if op.startswith("ins"):
            return pos1 + 1 - 1
        body = op[3:].split("ins")[0]
        return pos1 + len(body) - 1 - 1

    def apply_refseq(self, seq, pos1, op, offset=0):
        """Apply a written variant to a RefSeq window `seq` that starts at 0-based RefSeq `offset`."""
        i = pos1 - 1 - offset
        if ">" in op:
            l, r = op.split(">")
            out = list(seq)
            for k in range(len(l)):
                if l[k] != ".":
                    out[i + k] = r[k]
            return "".join(out)
        if op.startswith("ins"):
            return seq[: i + 1] + op[3:] + seq[i + 1:]
        body = op[3:]
        ins = ""
        if "ins" in body:
            body, ins = body.split("ins")
        return seq[:i] + ins + seq[i + len(body):]

    def ref_allele(self, pos1, op):
        """(written reference allele pattern, RefSeq bases there) for substitutions / deletions."""
        i = pos1 - 1
        if ">" in op:
            l = op.split(">")[0]
            return l, self.seq[i: i + len(l)]
        if op.startswith("del"):
            body = op[3:].split("ins")[0]
            return body, self.seq[i: i + len(body)]
        return None, None

    # ---------------------------------------------------------------- function
    def functional(self, pos1, op):
        """Function-altering per the database: the variant's first occurrence (file order: random,
        groups, alleles) carries an effect annotation.  (Effects are only *inferred* for variants
        that are not in the database.)"""
        # an effect field that is present but empty (RYR1 c.14364+1G>T) still marks the variant
        return self.first_info.get((pos1, op), (None, "-"))[0] is not None

    def region_of(self, cpos, gene_index=None):
        for gi, regs in enumerate(self.regions):
            if gene_index is not None and gi != gene_index:
                continue
            for r, (a, b) in regs.items():
                if a <= cpos < b:
                    return gi, r
        return None
