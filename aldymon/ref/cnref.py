"""Exhaustive reference evaluator of the documented gene-structure (copy number) objective.

Works on *structures*, not on the model's binaries: (two complete configurations, one of which may
be the whole-gene deletion) x (k gene-only extra copies of a default configuration) x (j
pseudogene-only copies).  Returns, for every admissible assignment, the configuration multiset it
folds to and its score.
"""
import itertools


def _kind(cfg):
    return str(cfg.kind).split(".")[-1]


def enumerate_structures(gene, prof, cn_configs, max_cn, region_coverage, fusion_support=None):
    """Yield (multiset tuple, score, internal description) for every admissible assignment."""
    dele = gene.deletion_allele()
    names = [
        n for n in cn_configs
        if not fusion_support or n == "1" or (dele and n == dele)
        or (n in fusion_support and fusion_support[n] >= 1 / (2 * max_cn))
    ]
    has_pseudo = len(gene.regions) > 1
    uniq = list(gene.unique_regions)
    regs = [r for r in region_coverage if r in uniq]
    n_u = len(uniq)
    PARS = 10.0 / n_u * 0.75

    def vec(name, weak=False):
        cn = cn_configs[name].cn
        g = {r: cn[0].get(r, 0) for r in regs}
        p = {r: (cn[1].get(r, 0) - (1 if weak else 0)) if len(cn) > 1 else 0 for r in regs}
        return g, p

    def pen(name):
        p = PARS
        if name in gene.cn_configs:
            k = _kind(gene.cn_configs[name])
            if k == "RIGHT_FUSION":
                p += PARS * prof.cn_fusion_right
            if k == "LEFT_FUSION":
                p += PARS * prof.cn_fusion_left
        return p

    defaults = [n for n in names if _kind(cn_configs[n]) == "DEFAULT"]
    pseudo_vec = None
    if has_pseudo and dele and dele in names:
        pseudo_vec = vec(dele)
    elif has_pseudo and dele:
        # structures[del_allele, 0] is required by the model; without it the model cannot be built
        pseudo_vec = None

    pairs = list(itertools.combinations_with_replacement(sorted(names), 2))
    kmax = max_cn - 1
    jmax = max_cn if pseudo_vec is not None else 0
    extra_choices = [()]
    if defaults:
        extra_choices = list(
            itertools.product(*[range(0, kmax + 1) for _ in defaults])
        )
    for a, b in pairs:
        double_del = dele is not None and a == dele and b == dele
        for ks in extra_choices:
            for j in range(0, jmax + 1):
                if double_del and (any(ks) or j):
                    continue
                g = {r: 0 for r in regs}
                p = {r: 0 for r in regs}
                cost = 0.0
                for n in (a, b):
                    vg, vp = vec(n)
                    for r in regs:
                        g[r] += vg[r]
                        p[r] += vp[r]
                    cost += pen(n)
                for d, k in zip(defaults, ks):
                    if k:
                        vg, vp = vec(d, weak=True)
                        for r in regs:
                            g[r] += k * vg[r]
                            p[r] += k * vp[r]
                        cost += k * pen(d)
                if j:
                    for r in regs:
                        g[r] += j * pseudo_vec[0][r]
                        p[r] += j * pseudo_vec[1][r]
                    cost += j * PARS
                diff = fit = 0.0
                ok = True
                for r in regs:
                    e0, e1 = region_coverage[r]
                    eg = e0 - g[r]
                    scale = max(e0, e1) + 1
                    e = ((e0 - e1) - (g[r] - p[r])) / scale
                    if abs(eg) > prof.cn_max + 1e-9 or abs(e) > prof.cn_max + 1e-9:
                        ok = False
                        break
                    diff += (prof.cn_pce_penalty if r == "pce" else 1.0) * abs(e)
                    fit += abs(eg)
                if not ok:
                    continue
                score = prof.cn_diff / n_u * diff + prof.cn_fit / n_u * fit + prof.cn_parsimony * cost
                multiset = [n for n in (a, b) if n != dele]
                for d, k in zip(defaults, ks):
                    multiset += [d] * k
                yield tuple(sorted(multiset)), score, (a, b, ks, j)


def table(gene, prof, cn_configs, max_cn, region_coverage, fusion_support=None):
    """{multiset: best score}, number of internal assignments, list of (multiset, score) of all."""
    best = {}
    allv = []
    for ms, sc, desc in enumerate_structures(gene, prof, cn_configs, max_cn, region_coverage,
                                             fusion_support):
        allv.append((ms, sc, desc))
        if ms not in best or sc < best[ms]:
            best[ms] = sc
    return best, allv
