"""Exhaustive reference evaluator of the documented major star-allele objective.

Enumerates all multisets of candidate alleles that give every configuration of the structure
exactly as many alleles as it has copies.  The novelty flag of an observed core variant is
determined (set iff no chosen allele carries it); two novel non-insertion variants at one site make
the combination inadmissible.
"""
import itertools


def observed_copies(coverage, cn_solution, m):
    """Observed copy number of a variant / reference site, as the statement defines it:
    reads supporting it divided by the per-copy depth at that site (read directly from the tables)."""
    from . import evidence

    return evidence.observed_copies(coverage, cn_solution, m)


def _support(coverage, m):
    from . import evidence

    return evidence.support(coverage, m)


def enumerate_major(gene, coverage, cn_solution, allele_dict, max_combos=200000):
    """Returns (list of (alleles tuple, novel tuple, score), func_muts) or (None, ...) if too large."""
    from aldy.gene import Mutation

    prof = coverage.profile
    func_muts = sorted(
        Mutation(*m) for m in gene.mutations
        if gene.is_functional(m) and _support(coverage, Mutation(*m)) > 0
    )
    by_cfg = {}
    for an, a in allele_dict.items():
        by_cfg.setdefault(a.cn_config, []).append(an)
    per_cfg = []
    size = 1
    for cfg, cnt in cn_solution.solution.items():
        names = sorted(by_cfg.get(cfg, []))
        combos = list(itertools.combinations_with_replacement(names, cnt))
        per_cfg.append(combos)
        size *= max(1, len(combos))
        if size > max_combos:
            return None, func_muts
    positions = sorted({m.pos for m in func_muts})
    obs = {m: observed_copies(coverage, cn_solution, m) for m in func_muts}
    obs_ref = {p: observed_copies(coverage, cn_solution, Mutation(p, "_")) for p in positions}
    out = []
    for parts in itertools.product(*per_cfg):
        chosen = [a for part in parts for a in part]
        carried = {}
        for a in chosen:
            for m in allele_dict[a].func_muts:
                carried[m] = carried.get(m, 0) + 1
        novel = [m for m in func_muts if m not in carried]
        # one novel (non-insertion) variant per site
        seen = set()
        ok = True
        for m in novel:
            if m.op[:3] == "ins":
                continue
            if m.pos in seen:
                ok = False
                break
            seen.add(m.pos)
        if not ok:
            continue
        err = 0.0
        for m in func_muts:
            err += abs(obs[m] - carried.get(m, 0) - (1 if m in novel else 0))
        for m in carried:
            if m not in obs:  # carried but unobserved core variant (cannot happen for filtered candidates)
                err += carried[m]
        for p in positions:
            called = 0
            for a in chosen:
                if not gene.has_coverage(a, p):
                    continue
                if any(mm.pos == p and mm.op[:3] != "ins" for mm in allele_dict[a].func_muts):
                    continue
                called += 1
            err += abs(obs_ref[p] - called)
        score = err + (prof.major_novel if novel else 0.0) + 0.1 * len(novel)
        out.append((tuple(sorted(chosen)), tuple(sorted(novel)), score))
    return out, func_muts
