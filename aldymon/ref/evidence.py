"""Direct readings of a Coverage object's tables (independent of its accessor methods)."""


def support(cov, m):
    """Reads supporting a variant / reference allele: the realigner's table for indels it lists, else the
    number of observations in the per-position table."""
    if cov._indels and (m.pos, m.op) in cov._indels:
        return cov._indels[m.pos, m.op][1]
    return len(cov._coverage.get(m.pos, {}).get(m.op, []))


def locus_depth(cov, m):
    """Depth the support is relative to: the realigner's supporting + non-supporting reads for indels it
    lists, else all non-insertion observations at the position."""
    if cov._indels and (m.pos, m.op) in cov._indels:
        return sum(cov._indels[m.pos, m.op])
    return sum(len(v) for op, v in cov._coverage.get(m.pos, {}).items() if op[:3] != "ins")


def observed_copies(cov, cn_solution, m):
    """Observed copy number: support divided by the per-copy depth at the site (0 where the structure has
    no copies)."""
    cn = cn_solution.position_cn(m.pos)
    if cn == 0:
        return 0.0
    per_copy = max(1, locus_depth(cov, m)) / cn
    return support(cov, m) / per_copy
