"""Canonical, order-insensitive snapshots of Gene and Coverage objects (for 'database untouched')."""
import hashlib
import json


def _h(obj):
    return hashlib.sha1(json.dumps(obj, sort_keys=True, default=str).encode()).hexdigest()


def gene_snapshot(g):
    alleles = {}
    for an, a in g.alleles.items():
        alleles[an] = {
            "name": a.name, "cn_config": a.cn_config,
            "func": sorted(map(list, a.func_muts)),
            "minors": {mn: {"name": mi.name, "alt": mi.alt_name, "neutral": sorted(map(list, mi.neutral_muts)),
                            "activity": mi.activity, "evidence": mi.evidence, "pharmvar": mi.pharmvar}
                       for mn, mi in a.minors.items()},
        }
    cfgs = {cn: {"cn": [dict(x) for x in c.cn], "kind": str(c.kind), "alleles": sorted(c.alleles),
                 "description": c.description} for cn, c in g.cn_configs.items()}
    d = {
        "name": g.name, "genome": g.genome, "chr": g.chr, "strand": g.strand, "seq": _h(g.seq),
        "c2r": _h(sorted(g.chr_to_ref.items())), "r2c": _h(sorted(g.ref_to_chr.items())),
        "pseudogenes": list(g.pseudogenes),
        "regions": [{r: list(v) for r, v in rg.items()} for rg in g.regions],
        "region_order": [list(rg) for rg in g.regions],
        "exons": list(map(list, g.exons)), "aminoacid": g.aminoacid,
        "mutations": sorted([list(k), list(v)] for k, v in g.mutations.items()),
        "random": sorted(map(list, g.random_mutations)),
        "do_copy_number": g.do_copy_number, "unique_regions": list(g.unique_regions),
        "alleles": alleles, "allele_order": list(g.alleles), "cn_configs": cfgs, "cn_order": list(g.cn_configs),
        "tandems": sorted(map(list, g.common_tandems)), "removed": dict(g.removed),
        "lookup": [list(g._lookup_range), _h(g._lookup_seq)],
    }
    return d


def coverage_snapshot(c):
    cov = {str(p): {op: sorted(map(list, v)) for op, v in ops.items()} for p, ops in c._coverage.items()}
    return {
        "coverage": _h(cov), "n_positions": len(cov),
        "indels": sorted([list(k), list(v)] for k, v in (c._indels or {}).items()),
        "cnv": _h(sorted(c._cnv_coverage.items())) if c._cnv_coverage is not None else None,
        "region": sorted([list(k), v] for k, v in c._region_coverage.items()),
        "profile": {k: (list(v) if isinstance(v, tuple) else v) for k, v in sorted(c.profile.__dict__.items())
                    if k != "data"},
    }


def diff(a, b, path=""):
    """First few differing paths between two snapshots."""
    out = []
    if isinstance(a, dict) and isinstance(b, dict):
        for k in sorted(set(a) | set(b), key=str):
            if k not in a or k not in b:
                out.append(f"{path}/{k} (missing on one side)")
            else:
                out += diff(a[k], b[k], f"{path}/{k}")
            if len(out) > 5:
                break
    elif a != b:
        out.append(f"{path}: {str(a)[:80]} != {str(b)[:80]}")
    return out
