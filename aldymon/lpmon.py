"""ILP shadow monitor.

`install()` replaces aldy.lpinterface.CBC by a subclass that lets the real CBC wrapper do all the
work and records, around every solve(), the *live* model (ExportModelToProto) and the values the
solver reports.  The online checker follows the solve -> yield -> cut -> solve ... trace of
`solutions()`; the offline auditors re-solve the exported models with independent solvers (SCIP,
HiGHS) or by exhaustive enumeration of the binaries (GLOP for the continuous part).

Nothing here re-derives the model from aldy's inputs: what is checked is the model that was built.
"""
import contextlib
import itertools
import math
import os
import sys

FEAS_TOL = 1e-5  # aldy.lpinterface.SOLVER_PRECISON
OBJ_TOL = 1e-4
BAND = 1e-4  # don't-care band around the gap boundary

RECORDS = []  # ModelRecord of every model built since the last reset()
MAX_RECORDS = 4000


def reset():
    del RECORDS[:]


class Problem:
    def __init__(self, clause, what, **w):
        self.clause, self.what, self.w = clause, what, w

    def __repr__(self):
        return f"{self.clause}: {self.what} {self.w}"


class ProtoModel:
    """Plain-python view of an exported MPModelProto."""

    def __init__(self, proto):
        self.names = [v.name for v in proto.variable]
        self.lb = [v.lower_bound for v in proto.variable]
        self.ub = [v.upper_bound for v in proto.variable]
        self.integer = [bool(v.is_integer) for v in proto.variable]
        self.c = [v.objective_coefficient for v in proto.variable]
        self.offset = proto.objective_offset
        self.maximize = proto.maximize
        self.cons = [
            (list(c.var_index), list(c.coefficient), c.lower_bound, c.upper_bound, c.name)
            for c in proto.constraint
        ]
        self.proto = proto

    @property
    def binaries(self):
        return [
            i for i in range(len(self.names))
            if self.integer[i] and abs(self.lb[i]) < 1e-2 and abs(1 - self.ub[i]) < 1e-2
        ]

    def objective(self, x):
        return self.offset + sum(c * x[i] for i, c in enumerate(self.c) if c)

    def violations(self, x, tol=FEAS_TOL):
        """List of (kind, name, amount) for bounds / integrality / constraints violated by x."""
        bad = []
        for i, v in enumerate(x):
            if v < self.lb[i] - tol or v > self.ub[i] + tol:
                bad.append(("bound", self.names[i], v))
            if self.integer[i] and abs(v - round(v)) > tol:
                bad.append(("integrality", self.names[i], v))
        for idx, coef, lo, hi, name in self.cons:
            s = sum(cf * x[i] for i, cf in zip(idx, coef))
            scale = max(1.0, max((abs(cf) for cf in coef), default=1.0))
            if s < lo - tol * scale or s > hi + tol * scale:
                bad.append(("constraint", name, (lo, s, hi)))
        return bad


class ModelRecord:
    def __init__(self, name):
        self.name = name
        self.prods = []  # (res var, [factor vars])
        self.abss = []  # (abs var, arg var, coeff)
        self.solves = 0
        self.initial = None  # ProtoModel at the first solve
        self.last = None  # (ProtoModel, values, objective) of the latest successful solve
        self.traces = []  # one per top-level solutions() call
        self.problems = []
        self.solver = None
        self.name_collisions = 0


class Trace:
    def __init__(self, gap):
        self.gap = gap
        self.yields = []  # dicts: obj, names, values(by var name, binaries only), tbfree
        self.exhausted = False
        self.closed_early = False
        self.final = None  # ProtoModel after the last (rejected / infeasible) solve
        self.final_status = None


def _export(solver):
    from ortools.linear_solver import linear_solver_pb2

    p = linear_solver_pb2.MPModelProto()
    solver.ExportModelToProto(p)
    return p


def make_class(base):
    class MonCBC(base):
        def __init__(self, name):
            super().__init__(name)
            self._rec = ModelRecord(name)
            self._rec.solver = self
            if len(RECORDS) < MAX_RECORDS:
                RECORDS.append(self._rec)

        def prod(self, res, terms):
            terms = list(terms)
            self._rec.prods.append((res, terms))
            return super().prod(res, terms)

        def abssum(self, vars, coeffs=None):
            vars = list(vars)
            n0 = self.model.NumVariables()
            out = super().abssum(iter(vars), coeffs)
            new = self.model.variables()[n0:]
            if len(new) == len(vars):
                for av, v in zip(new, vars):
                    name = self.varName(v)
                    cf = 1 if coeffs is None or name not in coeffs else coeffs[name]
                    self._rec.abss.append((av, v, cf))
            else:
                self._rec.problems.append(
                    Problem("abs_helper", "abssum did not create one helper per term",
                            terms=len(vars), helpers=len(new)))
            return out

        def solve(self, init=None):
            rec = self._rec
            pm = ProtoModel(_export(self.model))
            want = getattr(rec, "_want_initial", None)
            if rec.initial is None or (want is not None and rec.traces and rec.traces[0] is want):
                # the model as it stands when the (first) enumeration starts; a solve before that - a peek at a
                # partially built model - does not define it
                rec.initial = pm
                if len(set(pm.names)) != len(pm.names):
                    rec.name_collisions += 1
            rec._want_initial = None
            rec.solves += 1
            rec.last = None
            rec.last_attempt = pm
            status, obj = super().solve(init)
            vals = [v.solution_value() for v in self.model.variables()]
            rec.last = (pm, vals, obj, status)
            return status, obj

        def solutions(self, gap=0, best_obj=None, limit=None, iteration=0, init=None):
            if iteration != 0:
                yield from super().solutions(gap, best_obj, limit, iteration, init)
                return
            rec = self._rec
            tr = Trace(gap)
            rec.traces.append(tr)
            rec._want_initial = tr
            try:
                for item in super().solutions(gap, best_obj, limit, iteration, init):
                    _on_yield(rec, tr, item, best_obj)
                    yield item
                tr.exhausted = True
                tr.final = getattr(rec, "last_attempt", None)
                tr.final_status = None if rec.last is None else rec.last[3]
            except GeneratorExit:
                tr.closed_early = True
                raise

    MonCBC.__name__ = "CBC"
    return MonCBC


def _on_yield(rec, tr, item, best_obj):
    """Online checks at a yield of solutions()."""
    status, obj, names = item
    P = rec.problems
    if rec.last is None:
        P.append(Problem("yield_feasible", "solution yielded without a successful solve"))
        return
    pm, vals, sobj, sstatus = rec.last
    bad = pm.violations(vals)
    if bad:
        P.append(Problem("yield_feasible", "yielded point violates the exported model",
                         violated=bad[:4], model=rec.name))
    o2 = pm.objective(vals)
    if abs(o2 - obj) > OBJ_TOL * max(1.0, abs(obj)):
        P.append(Problem("yield_objective", "reported objective differs from the objective of the values",
                         reported=obj, recomputed=o2, model=rec.name))
    active = tuple(sorted({pm.names[i] for i in pm.binaries if round(vals[i]) == 1}))
    if tuple(names) != active:
        P.append(Problem("yield_names", "reported active binaries differ from the solver's values",
                         reported=list(names)[:8], actual=list(active)[:8], model=rec.name))
    first = tr.yields[0]["obj"] if tr.yields else (obj if best_obj is None else best_obj)
    ubound = (1 + tr.gap) * first
    if obj > ubound + FEAS_TOL + 1e-9:
        P.append(Problem("yield_gap", "yielded solution outside the gap", obj=obj, bound=ubound,
                         model=rec.name))
    if tr.yields and obj < tr.yields[-1]["obj"] - OBJ_TOL:
        # the model of the previous solve is this one without its last exclusion cut, so the point found now was
        # feasible then as well: if it is (checked on the previous exported model), the solver had returned, flagged
        # optimal, a solution that was not optimal - a defect of the solver library, not of the enumeration
        mech = None
        prev_pm = getattr(tr, "prev_pm", None)
        if prev_pm is not None and len(prev_pm.names) == len(vals) and not prev_pm.violations(vals) and \
                abs(prev_pm.objective(vals) - obj) <= OBJ_TOL * max(1.0, abs(obj)):
            mech = "solver-returns-suboptimal-flagged-optimal"
        P.append(Problem("yield_order", "objective decreased between consecutive yields",
                         prev=tr.yields[-1]["obj"], obj=obj, model=rec.name, mech=mech))
    if any(y["names"] == active for y in tr.yields):
        P.append(Problem("yield_duplicate", "binary assignment yielded twice", names=list(active)[:8],
                         model=rec.name))
    # helper exactness at this (optimal) point
    for av, v, cf in rec.abss:
        if cf > 0:
            a, x = av.solution_value(), v.solution_value()
            if abs(a - abs(x)) > 1e-6 * max(1.0, abs(x)):
                P.append(Problem("abs_helper", "absolute-value helper differs from |argument| at an optimum",
                                 helper=a, arg=x, model=rec.name))
    for r, terms in rec.prods:
        rv = r.solution_value()
        t = [round(f.solution_value()) for f in terms]
        if round(rv) != int(all(t)):
            P.append(Problem("prod_helper", "product variable differs from AND of its factors",
                             product=rv, factors=t, model=rec.name))
    tr.yields.append({
        "obj": obj,
        "names": active,
        "n_abs": len(rec.abss),
        "n_prod": len(rec.prods),
        # objective coefficients of the active binaries (for tie-breaker-free scores)
        "coef": {pm.names[i]: pm.c[i] for i in pm.binaries if round(vals[i]) == 1 and pm.c[i]},
    })
    tr.last_values = dict(zip(pm.names, vals)) if len(pm.names) < 60000 else None
    tr.prev_pm = pm


_installed = {}


def install():
    """Replace aldy.lpinterface.CBC by the monitored subclass (idempotent)."""
    import aldy.lpinterface as lpi

    if "orig" not in _installed:
        _installed["orig"] = lpi.CBC
        lpi.CBC = make_class(lpi.CBC)
    return lpi.CBC


def uninstall():
    import aldy.lpinterface as lpi

    if "orig" in _installed:
        lpi.CBC = _installed.pop("orig")


# ------------------------------------------------------------------ independent re-solves


@contextlib.contextmanager
def _quiet():
    """Silence solver banners written to the C-level stdout."""
    sys.stdout.flush()
    saved = os.dup(1)
    dn = os.open(os.devnull, os.O_WRONLY)
    try:
        os.dup2(dn, 1)
        yield
    finally:
        sys.stdout.flush()
        os.dup2(saved, 1)
        os.close(dn)
        os.close(saved)


def resolve(pm, solver="SCIP", fix=None, time_limit_ms=60000):
    """Solve an exported model with an independent solver. Returns (status, objective|None).

    status: 'optimal' | 'infeasible' | 'other'.  Names are replaced by synthetic unique ones so that
    colliding names cannot abort the process.
    """
    from ortools.linear_solver import pywraplp, linear_solver_pb2

    p = linear_solver_pb2.MPModelProto()
    p.CopyFrom(pm.proto)
    for i, v in enumerate(p.variable):
        v.name = f"v{i}"
    for i, c in enumerate(p.constraint):
        c.name = f"c{i}"
    if fix:
        for i, val in fix.items():
            p.variable[i].lower_bound = val
            p.variable[i].upper_bound = val
    s = pywraplp.Solver.CreateSolver(solver)
    if s is None:
        return "other", None
    with _quiet():
        s.LoadModelFromProto(p)
        s.SetTimeLimit(time_limit_ms)
        st = s.Solve()
    if st == pywraplp.Solver.OPTIMAL:
        return "optimal", s.Objective().Value()
    if st == pywraplp.Solver.INFEASIBLE:
        return "infeasible", None
    return "other", None


def audit_independent(rec, solvers=("SCIP", "HIGHS")):
    """Offline: first yield = optimum of the initial model; final model (all cuts) has nothing inside the gap.

    Returns (problems, stats).
    """
    probs, stats = [], {"resolved": 0, "agree": 0, "final_checked": 0, "skipped": 0}
    if rec.initial is None:
        return probs, stats
    for tr in rec.traces[:1]:
        first = tr.yields[0]["obj"] if tr.yields else None
        for sv in solvers:
            st, obj = resolve(rec.initial, sv)
            if st == "other":
                stats["skipped"] += 1
                continue
            stats["resolved"] += 1
            if first is None:
                if st == "optimal":
                    probs.append(Problem("first_is_optimum", f"{sv} finds a solution but nothing was yielded",
                                         independent=obj, model=rec.name))
                else:
                    stats["agree"] += 1
            elif st == "infeasible":
                probs.append(Problem("first_is_optimum", f"{sv} says infeasible but a solution was yielded",
                                     yielded=first, model=rec.name))
            elif abs(obj - first) > OBJ_TOL * max(1.0, abs(first)):
                probs.append(Problem("first_is_optimum", f"first yielded objective differs from {sv}'s optimum",
                                     yielded=first, independent=obj, model=rec.name))
            else:
                stats["agree"] += 1
        if tr.exhausted and tr.final is not None and first is not None:
            ubound = (1 + tr.gap) * first
            for sv in solvers[:1]:
                st, obj = resolve(tr.final, sv)
                if st == "other":
                    stats["skipped"] += 1
                    continue
                stats["final_checked"] += 1
                if st == "optimal" and obj < ubound - BAND:
                    probs.append(Problem(
                        "complete_final_model",
                        f"after enumeration ended, {sv} still finds a solution inside the gap in the final model",
                        remaining=obj, bound=ubound, yielded=len(tr.yields), model=rec.name))
    return probs, stats


def enumerate_model(pm, max_bin=16):
    """All feasible assignments of the binaries of an exported model with the best objective of the
    continuous rest (GLOP).  Returns dict {tuple(active names): objective} or None if too large."""
    bins = pm.binaries
    if len(bins) > max_bin:
        return None
    out = {}
    # cheap pruning: constraints that only mention binaries
    binset = set(bins)
    pure = [c for c in pm.cons if set(c[0]) <= binset]
    # general (non-binary) integer variables make the rest a MIP: solved with SCIP instead of the LP solver
    general_int = any(pm.integer[i] and i not in binset and pm.ub[i] - pm.lb[i] > 0.5 for i in range(len(pm.names)))
    inner = "SCIP" if general_int else "GLOP"
    for bits in itertools.product((0, 1), repeat=len(bins)):
        val = dict(zip(bins, bits))
        ok = True
        for idx, coef, lo, hi, _ in pure:
            s = sum(cf * val[i] for i, cf in zip(idx, coef))
            if s < lo - 1e-9 or s > hi + 1e-9:
                ok = False
                break
        if not ok:
            continue
        st, obj = resolve(pm, inner, fix={i: float(b) for i, b in val.items()})
        if st == "optimal":
            out[tuple(sorted(pm.names[i] for i, b in val.items() if b))] = obj
    return out


def audit_exhaustive(rec, max_bin=14):
    """Offline: compare the trace of a small model with exhaustive enumeration of its binaries."""
    probs, stats = [], {"enumerated": 0, "assignments": 0}
    if rec.initial is None or not rec.traces:
        return probs, stats
    tr = rec.traces[0]
    table = enumerate_model(rec.initial, max_bin)
    if table is None:
        return probs, stats
    stats["enumerated"] = 1
    stats["assignments"] = len(table)
    probs += compare_with_table(rec, tr, table)
    return probs, stats


def compare_with_table(rec, tr, table):
    """table: {active-binary-names tuple: objective} of ALL feasible assignments."""
    probs = []
    if not table:
        if tr.yields:
            probs.append(Problem("first_is_optimum", "model has no feasible assignment but something was yielded",
                                 model=rec.name))
        return probs
    best = min(table.values())
    if not tr.yields:
        probs.append(Problem("first_is_optimum", "feasible model but nothing yielded", best=best,
                             model=rec.name))
        return probs
    first = tr.yields[0]["obj"]
    if abs(first - best) > OBJ_TOL * max(1.0, abs(best)):
        probs.append(Problem("first_is_optimum", "first yielded objective is not the exhaustive optimum",
                             yielded=first, best=best, model=rec.name))
    for y in tr.yields:
        if y["names"] not in table:
            probs.append(Problem("yield_feasible", "yielded assignment is not feasible per enumeration",
                                 names=list(y["names"])[:8], model=rec.name))
        elif abs(table[y["names"]] - y["obj"]) > OBJ_TOL * max(1.0, abs(y["obj"])):
            probs.append(Problem("yield_objective", "yielded objective differs from the assignment's best objective",
                                 yielded=y["obj"], exhaustive=table[y["names"]], model=rec.name))
    if tr.exhausted:
        ubound = (1 + tr.gap) * first
        ys = [(set(y["names"]), y["obj"]) for y in tr.yields]
        for names, obj in table.items():
            if obj >= ubound - BAND:
                continue
            s = set(names)
            if any(yn <= s and yo <= obj + OBJ_TOL for yn, yo in ys):
                continue
            probs.append(Problem(
                "complete_superset",
                "feasible within-gap assignment neither yielded nor a superset of a yielded one that is no worse",
                names=list(names)[:10], obj=obj, bound=ubound, yielded=len(ys), model=rec.name))
            break
    return probs
