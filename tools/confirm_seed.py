#!/usr/bin/env python3
"""Confirm a seeded change independently and file it under /verif/seeded/<ID>-<X>/.

usage: confirm_seed.py <ID> <X> <srcdir> "<what it needs to manifest>" [--skip-tests]

In a scratch worktree of /repo HEAD: demo on clean tree must exit 0, with the patch exit != 0,
the patched tree must pass the repository's test-suite (77 passed).  Writes patch.diff, demo.py,
meta.json.  The worktree is removed afterwards.
"""
import json
import os
import re
import shutil
import subprocess
import sys
import time


def sh(cmd, cwd=None, env=None, timeout=3600):
    p = subprocess.run(cmd, shell=True, cwd=cwd, env=env, capture_output=True, text=True,
                       timeout=timeout)
    return p.returncode, (p.stdout + p.stderr)


def main():
    pid, x, src, needs = sys.argv[1:5]
    skip_tests = "--skip-tests" in sys.argv
    name = os.environ.get("SEED_NAME") or f"{pid}-{x}"
    dst = f"/verif/seeded/{name}"
    os.makedirs(dst, exist_ok=True)
    patch = os.path.join(src, f"patch{x}.diff")
    demo = os.path.join(src, f"demo{x}.py")
    # run the demonstration from a neutral directory: python puts the script's directory first on sys.path, so a
    # demo lying inside the sub-agent's (patched) worktree would import that tree instead of the scratch worktree
    import tempfile
    neutral = tempfile.mkdtemp(prefix="confirm-demo-")
    patch = shutil.copy(patch, os.path.join(neutral, "patch.diff"))
    demo = shutil.copy(demo, os.path.join(neutral, "demo.py"))
    wt = f"/tmp/confirm-{name}-{os.getpid()}"
    sh(f"/verif/tools/mkscratch.sh {wt}")
    env = dict(os.environ, PYTHONPATH=wt, PYTHONDONTWRITEBYTECODE="1", PYTHONHASHSEED="0")
    meta = {"id": name, "property": pid, "needs": needs, "ran": []}
    try:
        rc0, out0 = sh(f"timeout 900 /venv/bin/python {demo}", cwd=wt, env=env)
        meta["ran"].append({"cmd": f"demo on clean HEAD worktree", "exit": rc0})
        rc, out = sh(f"git apply {patch}", cwd=wt)
        meta["ran"].append({"cmd": "git apply patch.diff", "exit": rc})
        if rc != 0:
            meta["confirmed"] = False
            meta["why"] = "patch does not apply: " + out[-300:]
            return meta
        rc1, out1 = sh(f"timeout 900 /venv/bin/python {demo}", cwd=wt, env=env)
        meta["ran"].append({"cmd": "demo on patched worktree", "exit": rc1,
                            "tail": out1[-400:]})
        passed = None
        if not skip_tests:
            t0 = time.time()
            rc2, out2 = sh(
                "timeout 3000 /venv/bin/python -m pytest -q -p no:cacheprovider --timeout=900 "
                "-n 5 aldy/tests", cwd=wt, env=env, timeout=3200)
            m = re.search(r"(\d+) passed", out2)
            passed = int(m.group(1)) if m else 0
            failed = re.search(r"(\d+) failed", out2)
            meta["ran"].append({"cmd": "pytest -n 5 aldy/tests on patched worktree", "exit": rc2,
                                "passed": passed, "failed": int(failed.group(1)) if failed else 0,
                                "wall_s": round(time.time() - t0)})
        meta["confirmed"] = bool(rc0 == 0 and rc1 != 0 and (skip_tests or (passed == 77 and rc2 == 0)))
        if not meta["confirmed"]:
            meta["why"] = f"clean demo exit {rc0}, patched demo exit {rc1}, tests passed {passed}"
        return meta
    finally:
        shutil.copy(patch, os.path.join(dst, "patch.diff"))
        shutil.copy(demo, os.path.join(dst, "demo.py"))
        with open(os.path.join(dst, "meta.json"), "w") as f:
            json.dump(meta, f, indent=1)
        sh(f"/verif/tools/rmscratch.sh {wt}")
        shutil.rmtree(neutral, ignore_errors=True)
        print(json.dumps(meta)[:600])


if __name__ == "__main__":
    main()
