#!/bin/bash
# usage: try_seed.sh <ID> <patch.diff> [tier] [extra check args]
# Applies a seeded change to a scratch worktree of /repo (HEAD + uncommitted changes), runs the
# check for <ID> against it with ALDY_REPO, removes the worktree.  Exit code = the check's.
id="$1"; patch="$2"; tier="${3:-quick}"; shift 3 2>/dev/null
d="/tmp/try-$$"
/verif/tools/mkscratch.sh "$d" >/dev/null
( cd /repo && git diff HEAD ) > "$d/.wip.diff"
if [ -s "$d/.wip.diff" ]; then ( cd "$d" && git apply .wip.diff ) || echo "WIP diff did not apply"; fi
( cd "$d" && git apply "$patch" ) || { echo "PATCH DID NOT APPLY"; /verif/tools/rmscratch.sh "$d"; exit 3; }
ALDY_REPO="$d" /verif/check "$id" "$tier" --no-evidence "$@"
rc=$?
/verif/tools/rmscratch.sh "$d"
exit $rc
