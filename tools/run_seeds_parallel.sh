#!/bin/bash
# usage: run_seeds_parallel.sh <lanes> [run_seeds.py options]   -- all seeds, split over <lanes> background lanes
cd "$(dirname "$0")/.."
lanes=$1; shift
ids=($(ls seeded | grep -E '^C[0-9]+-[A-Z]$'))
for ((l=0; l<lanes; l++)); do
  sub=()
  for ((i=l; i<${#ids[@]}; i+=lanes)); do sub+=("${ids[$i]}"); done
  python3 tools/run_seeds.py "$@" "${sub[@]}" > /tmp/runseeds-lane$l.log 2>&1 &
done
wait
echo RUNSEEDS-DONE
