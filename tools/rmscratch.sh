#!/bin/bash
# usage: rmscratch.sh <dir>
git -C /repo worktree remove --force "$1" 2>/dev/null || rm -rf "$1"
git -C /repo worktree prune
