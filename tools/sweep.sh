#!/bin/bash
# usage: sweep.sh <tier> <seed>...   runs every claimed check for each seed without touching evidence/
cd "$(dirname "$0")/.."
tier="$1"; shift
ids="$SWEEP_IDS"
[ -z "$ids" ] && ids=$(python3 -c "import json; print(' '.join(c['property_id'] for c in json.load(open('MANIFEST.json'))['checks']))")
for sd in "$@"; do
  for id in $ids; do
    out=$(VERIF_SEED=$sd ./check $id $tier --no-evidence 2>&1)
    rc=$?
    echo "seed=$sd $id rc=$rc $(echo "$out" | grep -E '^\[' | tail -1)"
    if [ $rc -ne 0 ]; then echo "$out" | grep -E "summary|INCONCLUSIVE|note:" | head -8; fi
  done
done
