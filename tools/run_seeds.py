#!/usr/bin/env python3
"""Run every seeded change under /verif/seeded against the checks (own property first), record which
checks raise a VIOLATION.  usage: run_seeds.py [--all-checks] [seed ids...]
Applies each patch to a scratch worktree (never to /repo), runs ./check with ALDY_REPO."""
import json
import os
import re
import subprocess
import sys

HERE = os.path.dirname(os.path.dirname(os.path.abspath(__file__)))


def main():
    args = [a for a in sys.argv[1:] if not a.startswith("--")]
    all_checks = "--all-checks" in sys.argv
    tier = "thorough" if "--thorough" in sys.argv else "quick"
    ids = sorted(os.listdir(os.path.join(HERE, "seeded")))
    if args:
        ids = [i for i in ids if i in args]
    claimed = [c["property_id"] for c in json.load(open(os.path.join(HERE, "MANIFEST.json")))["checks"]]
    for sid in ids:
        d = os.path.join(HERE, "seeded", sid)
        meta = json.load(open(os.path.join(d, "meta.json")))
        prop = meta["property"]
        targets = claimed if all_checks else [prop]
        det = meta.get("detection", {})
        new_keys = set()
        for t in targets:
            p = subprocess.run([os.path.join(HERE, "tools/try_seed.sh"), t, os.path.join(d, "patch.diff"), tier],
                               capture_output=True, text=True)
            out = p.stdout + p.stderr
            clauses = sorted(set(re.findall(r"violation-summary clause=(\S+) mech=None", out)))
            counts = {c: int(n) for c, n in re.findall(r"violation-summary clause=(\S+) mech=\S+ route=\S* n=(\d+)", out)}
            summary = [ln for ln in out.split("\n") if ln.startswith("[")]
            sd = os.environ.get("VERIF_SEED")
            new_keys.add(f"{t}:{tier}" + (f":seed{sd}" if sd else ""))
            det[f"{t}:{tier}" + (f":seed{sd}" if sd else "")] = {"exit": p.returncode, "violated_clauses": clauses, "violations_per_clause": counts,
                                  "summary": summary[-1] if summary else out[-200:]}
            print(sid, t, tier, "exit", p.returncode, clauses, flush=True)
        # (other lanes may have written other keys meanwhile: merge into the file as it is now)
        import fcntl

        with open(os.path.join(d, "meta.json"), "r+") as f:
            fcntl.flock(f, fcntl.LOCK_EX)
            cur = json.load(f)
            cur.setdefault("detection", {}).update({k: v for k, v in det.items() if k in new_keys})
            f.seek(0)
            f.truncate()
            json.dump(cur, f, indent=1)


if __name__ == "__main__":
    main()
