#!/bin/bash
# Offline setup: contracts library beside the repository's interpreter (git-ignored .deps).
here="$(cd "$(dirname "$0")/.." && pwd)"
if [ ! -d "$here/.deps/icontract" ]; then
  mkdir -p "$here/.deps"
  PIP_NO_INDEX=1 /venv/bin/pip install --quiet --no-index --find-links /opt/veriftools/wheels \
     --target "$here/.deps" icontract deal >/dev/null 2>&1 || true
fi
mkdir -p "$here/out" "$here/evidence"
exit 0
