#!/bin/bash
# usage: mkscratch.sh <dir>   -- scratch git worktree of /repo (HEAD) with the prebuilt indelpost extension copied in
set -e
d="$1"
git -C /repo worktree add --detach --force "$d" HEAD >/dev/null 2>&1
cp /repo/aldy/indelpost/*.so "$d/aldy/indelpost/"
echo "$d"
