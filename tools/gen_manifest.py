#!/usr/bin/env python3
"""Regenerates MANIFEST.json from the table below (kept valid against /root/.vp/MANIFEST.schema.json)."""
import json
import os
import subprocess

HERE = os.path.dirname(os.path.dirname(os.path.abspath(__file__)))

# id -> (technique, level text, level note, design ref)
CLAIMED = {
    "C18": (
        "runtime monitor: Profile captured at the run boundary vs typed reference reading, all parameters x spellings x routes",
        "Every Profile attribute x every spelling of its documented type is pushed through the real CLI parser, genotype(), "
        "Profile.load/update and the `aldy profile` write-then-load round trip; a recorder at the point where the run "
        "receives its Profile compares type and value with a reference reading. Exhaustive over the finite parameter x "
        "spelling x route table, so exploration is the right level.",
        "documented types = types of the defaults; malformed only asserted for values the type cannot read at all",
        "DESIGN.md section 4 C18",
    ),
    "C05": (
        "online trace checker on a shadow of aldy's CBC wrapper + offline audit by exhaustive enumeration and independent solvers (SCIP, HiGHS)",
        "A subclass of aldy's own CBC wrapper (installed by rebinding aldy.lpinterface.CBC) exports the live model around "
        "every solve and follows the solve/yield/cut trace of solutions(): feasibility, reported objective, active "
        "binaries, gap, order, duplicates, helper exactness at every yield. Offline, generated models of aldy's shape "
        "are compared with an exhaustive semantic table (optimum, objective per assignment, superset-completeness), "
        "helper patterns are enumerated exhaustively, and every real model aldy builds for shipped samples / evidence "
        "tables is re-solved by SCIP and HiGHS (initial model and final model with all cuts).",
        "OR-Tools' export and SCIP/HiGHS/GLOP are trusted; tolerances 1e-5 feasibility, 1e-4 objective",
        "DESIGN.md section 4 C05",
    ),
    "C02": (
        "boundary monitor at solve_major_model + exhaustive reference evaluator over all allele multisets",
        "The arguments and result of every solve_major_model call are captured at the boundary (filtered evidence, "
        "candidate set, structure); an exhaustive plain-Python evaluator of the documented objective over all allele "
        "multisets decides per call: configuration counts, carried-XOR-novel for every observed core variant, score "
        "equality, no lower admissible combination, completeness within the gap, no duplicates; the candidate filter is "
        "recomputed from the raw table; noise-free evidence of (all / sampled) pairs and multisets of catalogued major "
        "alleles of all 38 shipped databases x 2 builds must return the planted combination with error 0.",
        "reference evaluator ref/majorref.py is trusted (validated by seeded mutants); skipped oversized cases are counted",
        "DESIGN.md section 4 C02",
    ),
    "C03": (
        "boundary monitor at solve_cn_model/estimate_cn + LP shadow monitor + exhaustive structure enumerator",
        "Every solve_cn_model call on planted/noisy/random region depths (toy, CYP2A6, CYP2D6, GSTM1, generated "
        "databases; max copy number 3-6; gap 0/0.1/0.3; long-read fusion support incl. threshold values) is compared with "
        "an exhaustive enumeration of all admissible structures (two complete configurations x extra gene copies x "
        "pseudogene copies): admissibility, score equality, global optimum, gap, no repeats, containment-completeness, "
        "region_cn; the LP monitor shows the internal assignment of every yielded solution (two complete "
        "configurations, deletion exclusivity). User-supplied lists, junk names, default two copies (exome/male/X) and "
        "the arguments estimate_cn hands to the model are checked by wrappers.",
        "reference evaluator ref/cnref.py is trusted (validated by seeded mutants)",
        "DESIGN.md section 4 C03",
    ),
    "C04": (
        "boundary monitor at solve_minor_model + LP shadow monitor (optimum's own assignment, tie-breaker-free score) + reference evaluator (position-decomposed optimum, branch-and-bound with phase)",
        "Arguments, results and boundary-time scores of every solve_minor_model call are captured; the LP monitor gives "
        "the optimum's own keep/add assignment and the objective coefficients, so the score is compared with the "
        "tie-breaker part removed exactly. The reference evaluator scores the assignment (fit error, dropped/added/"
        "novel-core penalties, read-phase disagreement) and searches for a lower admissible assignment (exact "
        "position decomposition without phase, branch-and-bound with phase, node-capped); the statement's rules are "
        "checked on every reported allele; noise-free pairs of catalogued minor alleles of all shipped genes must be "
        "reproduced.",
        "ref/minorref.py trusted (validated by seeded mutants); optimality claimed up to the tie-breaker mass of the witness",
        "DESIGN.md section 4 C04",
    ),
    "C11": (
        "icontract postcondition on estimate_diplotype + predicates on the rendered strings over all permutations",
        "The real estimate_diplotype is wrapped with an icontract postcondition (indices are a partition of the called "
        "copies) and the rendered major/minor diplotype strings are checked by independent predicates: both haplotypes "
        "non-empty, deletion placeholders, names = called majors with fusion suffix removed and novel core variants "
        "appended, listed tandems adjacent when > 2 copies, natural order of haplotypes and alleles, order independence "
        "for <= 2 copies; multisets of 0-6 alleles of the toy gene, CYP2D6, CYP2A6, CYP2C19, GSTM1 and generated "
        "databases in every permutation (n <= 4) or sampled permutations.",
        "natsort (the library the code uses) defines natural order",
        "DESIGN.md section 4 C11",
    ),
    "C12": (
        "output monitor: both writers' text parsed back by independent parsers, cell-by-cell comparison with definition+added-lost",
        "The decomposition file and the VCF written by the real writers (directly and through genotype() with "
        "*.aldy/*.vcf/*.simple outputs) for lists of 1-4 differing solutions x 1-4 copies are parsed back and compared per "
        "solution and copy with definition + added - lost, read support, effect, dbSNP id, diplotype and allele list; "
        "VCF cells (GT/MA/MI/DP), POS and REF/ALT are checked one by one. Wrong cells count as known findings only when "
        "they are exactly what one of three documented defect mechanisms produces; anything else is a violation.",
        "independent parsers in props/c12.py; read support taken from the Coverage object handed to the writer",
        "DESIGN.md section 4 C12",
    ),
    "C08": (
        "post-load monitor: every loaded variant applied to the genome-oriented reference vs the written variant applied to the RefSeq; wrapper around the realigner's Variant(...)",
        "After Gene(...) for all 38 shipped databases x 2 builds (exhaustive) and generated databases (either strand, "
        "I/D alignment strings, every variant kind, variants on region ends), each loaded variant is applied to the "
        "genome-oriented lookup sequence, oriented to the gene's strand and compared with the written variant applied to "
        "the RefSeq; reference alleles, key positions, mutual inverse of the maps, RefSeq notation, lookup sequence vs "
        "truth genome are checked; the arguments handed to indelpost's Variant and the long-read equivalence table "
        "are captured by a wrapper and interpreted against the same haplotype.",
        "sequence model ref/catalogue.py; written insertion = after the given RefSeq base; toy test database excluded (inconsistent)",
        "DESIGN.md section 4 C08",
    ),
    "C09": (
        "post-load monitor: loaded catalogue vs independent model rebuilt from the YAML, both builds",
        "After Gene(...) for all 38 shipped databases x 2 builds (exhaustive) and generated databases (duplicates, name and "
        "label collisions, cross-number duplicates, fusions with/without own core variants, custom deletions, zero-length "
        "regions, variants on region ends) every database allele is looked up by name and its content compared with the "
        "entry; major alleles pairwise distinct in (structure, core set); functional/silent split; minors distinct; "
        "configurations exist and have the vectors the fusion/deletion entries imply; region lookup and copy test at all "
        "region ends; fusion partials = parent's variants in retained regions; the two builds' catalogues are compared in "
        "RefSeq notation.",
        "YAML model ref/catalogue.py; function-altering = effect field present on the variant's first occurrence",
        "DESIGN.md section 4 C09",
    ),
    "C06": (
        "post-load monitor: per-position table vs independent CIGAR interpreter over the written reads; metamorphic re-runs; htslib second opinion",
        "Hostile read sets (random CIGARs over M,=,X,I,D,S,H with leading/trailing insertions, adjacent I/D, clips, all "
        "flags, qualities, shared fragment names, planted complete/incomplete catalogued multi-nucleotide substitutions) "
        "are written as real BAM files for generated genes of either strand; after Sample(...) every region position's "
        "depth, per-base counts, deleted-base counts, quality pairs and the phase records are compared with an "
        "independent CIGAR interpreter over the same reads; the read set is re-written shuffled and with re-split / "
        "re-typed match runs and must give the same table; the shipped NA10860 BAMs are checked against the interpreter "
        "and htslib's count_coverage.",
        "pysam/htslib writes the BAM faithfully; interpreter in props/c06.py",
        "DESIGN.md section 4 C06",
    ),
    "C01": (
        "end-to-end monitor: genotype() on simulated error-free BAMs; precondition decided by the exhaustive structure evaluator on the run's own region depths; counterfactual / evidence-based classifiers for listed defects",
        "Error-free samples of admissible multisets of 1-4 catalogued alleles (deletion, extra copies, left/right fusions "
        "with and without own core variants, SNP / MNP / insertion / deletion alleles, close cis indel+SNP pairs) are written "
        "as real BAM files for generated databases on either strand (with/without pseudogene) and for small shipped genes, "
        "read length 50-250, depth 20-50, profile from a simulated two-copy reference BAM; genotype() must report the planted "
        "major combination among its best solutions and every best solution must carry exactly the planted variants, "
        "whenever the planted structure is optimal for the region depths the run itself computed (exhaustive evaluator). "
        "A discrepancy counts as a known finding only if an exact observable of the listed mechanism is present "
        "(vanishes with phase off; zero support next to a cis indel; realigner support differs from ground-truth read "
        "count; non-unique indel placement).",
        "read simulator gen/reads.py (alignments written directly, indels left-aligned as aligners do); ref/cnref.py",
        "DESIGN.md section 4 C01",
    ),
    "C07": (
        "metamorphic runtime monitor on real BAM files: duplication invariance, linear scaling, self-profile = 2.0, depth-independent structure, empty neutral region rejected",
        "For simulated samples of generated genes (either strand, with/without pseudogene; reads with deletions inside the "
        "neutral region; custom neutral sub-regions; one Profile object reused) the normalised depth of every region is read "
        "from the real Coverage after Sample construction for S, S with every read duplicated k times (k in 2..5), S with "
        "only gene reads multiplied, and the profile sample against its own profile (BAM profile, and the YAML printed by "
        "`aldy profile` re-loaded for shipped genes); estimate_cn must return the same structures for S and S x k; samples "
        "without neutral reads must raise.",
        "read simulator gen/reads.py; relative tolerance 1e-9",
        "DESIGN.md section 4 C07",
    ),
    "C19": (
        "end-to-end monitor: genotype() return value / exception and output files on simulated BAMs that lack the data",
        "Real BAM files whose reads avoid the gene locus, cover it below the default or a configured minimum, lie only "
        "between gene and pseudogene, cover only the pseudogene, or avoid the neutral region are genotyped with a BAM "
        "profile, a written profile file and a user-supplied structure, in all output formats; the wrapper records the "
        "returned solutions / raised error and parses the output file: no call and an explanatory AldyException are "
        "required, simple output must not hold an unterminated partial line, pseudogene-only samples must be called as "
        "whole-gene deletion and adequate samples must still be called.",
        "read simulator gen/reads.py",
        "DESIGN.md section 4 C19",
    ),
    "C10": (
        "stage-boundary recorders inside one genotype() call + independent recomputation of the final selection",
        "estimate_cn, estimate_major and solve_minor_model are wrapped; their results and scores are copied at return "
        "(before genotype() rewrites scores in place). From these raw scores the surviving major solutions, the combined "
        "scores (minor + carried major difference, rescaled by the structure score), the reported set within gap + "
        "precision and its order are recomputed and compared with genotype()'s return value; every reported solution is "
        "checked as a chain (configurations vs structure, minors vs majors, diplotype indices, derivation from recorded "
        "candidates); forced empty stages must end in an error. Workload: simulated samples with a fractional extra copy, "
        "sequencing errors and jitter so that several structures and major solutions compete, gap 0/0.1/0.3, 1-3 minor "
        "solutions.",
        "read simulator; precision 1e-2 as in aldy.common; items exceeding 40 s are counted as skipped",
        "DESIGN.md section 4 C10",
    ),
    "C17": (
        "history monitor: CLI run with --debug followed by CLI run on the archive; genotype() return values captured by rebinding the early-bound aldy.__main__.genotype; output files compared",
        "For simulated samples (generated databases with indels, fusions, a fractional extra copy, paired reads, "
        "parameters given on the command line, unidentifiable BAM headers with and without --genome; shipped CYP2A6 / "
        "CYP2C19 / GSTM1 with exome-family and illumina profiles and 1-3 copies; NA10860 in the thorough tier) the real CLI "
        "is run with --debug and then on the produced archive with the same arguments; structures, major and minor "
        "solutions, all three score levels, sample name and the output file of the two runs must be equal.",
        "scores compared at 1e-6 relative",
        "DESIGN.md section 4 C17",
    ),
    "C16": (
        "post-load monitor on generated VCF files: support of every catalogued variant and reference support vs the written genotypes; end-to-end call",
        "Catalogued alleles of generated and small shipped databases are written as standard left-anchored VCF records "
        "(SNP, deletion, insertion, multi-nucleotide as one or as adjacent records; 0/1, 1/1, 1/2, phased; records whose "
        "REF is the variant base; unrelated MNP / complex records; missing, haploid and triploid genotypes; multi-sample "
        "files with a sample index), bgzipped and indexed; after Sample(...) the support of every catalogued variant and "
        "the reference support at every catalogued site are compared with the alternate-copy counts; genotype() on the "
        "VCF must report reference/allele. Wrong cells count as known findings only for the listed insertion / "
        "multi-nucleotide mechanisms.",
        "pseudo-read bookkeeping 20 reference / 10 per alternate copy as documented",
        "DESIGN.md section 4 C16",
    ),
    "C15": (
        "metamorphic runtime monitor: the same qualifying evidence with and without sub-threshold observations through the real stages; qualifying support recomputed from the raw table",
        "Evidence tables over the toy gene, generated and small shipped databases carry per-observation (mapping quality, "
        "base quality) pairs; thresholds min_quality / min_mapq / min_coverage / threshold are drawn from their documented "
        "ranges (usually different from each other); arbitrary observations failing exactly one or both quality thresholds "
        "are added at reference and variant sites, including a core variant seen only in such reads. estimate_major and "
        "estimate_minor must return identical solutions and scores for both tables; every core variant of a called allele, "
        "every novel variant and every carried variant must have qualifying support >= min_coverage and pass the fraction "
        "threshold as recomputed from the raw table; the allele whose core variant has no qualifying read must never be called.",
        "qualifying-read definition and fraction rule as documented in profile.py",
        "DESIGN.md section 4 C15",
    ),
    "C13": (
        "metamorphic runtime monitor: the same RefSeq-level evidence expressed against both builds through the real stages; end to end with reads derived from the database's written notation",
        "Planted / noisy evidence described in RefSeq terms (noise keyed by RefSeq notation) is expressed in both builds of "
        "shipped databases (hg19 vs hg38) and of generated databases whose builds use opposite strands and offsets, and "
        "run through solve_cn_model, estimate_major and estimate_minor; structures, major solutions and scores, minor "
        "optima (tie-breaker removed via the LP monitor) and reported assignments are compared in RefSeq notation. End "
        "to end, alignments are simulated against each build from the database's *written* variants through the "
        "generator's own coordinate maps (independent of aldy's loader), each build is judged by the C01 oracle and the "
        "two results are compared.",
        "sites whose variant grouping differs between strands get no noise; scores compared up to the tie-breaker mass",
        "DESIGN.md section 4 C13",
    ),
    "C14": (
        "history monitor with offline checker over recorded result signatures and deep snapshots; fresh-process replays over hash seeds; subset/order sweep of the minor stage with an exact re-computation classifier",
        "Histories of 2-6 operations (single-gene runs, multi-gene runs in both orders and with a failing gene, accessor "
        "sweeps, writers, query printing; the same shipped gene through whole-genome and exome-family profiles) are run "
        "on BAM files holding two generated databases on different contigs; the offline checker requires equal result "
        "signatures (structures, alleles, all score levels) for equal operations wherever they occur, multi-gene = single, "
        "failing gene isolated. Random sequences of stage calls / accessors / writers on one loaded Gene + Sample are "
        "followed by deep snapshots of catalogue and evidence after every call (compared with the snapshot before and "
        "with a fresh load). One run is replayed in fresh processes under PYTHONHASHSEED 0-7. estimate_minor is called "
        "with all subsets and orders of a candidate list with different structures; a difference is a known finding only "
        "if it equals an independent re-computation of the documented shared-filter behaviour.",
        "snapshots in ref/snapshot.py; scores compared exactly inside a process",
        "DESIGN.md section 4 C14",
    ),
}

NOT_YET = {}

# what later rounds added to the workloads / observation points (DESIGN.md sections 8 and 11)
ADDENDA = {
    "C01": " A recorder around the realigner checks that aldy's indel support table equals the realigner's own counts; "
           "twin insertions, homozygous deletions and tied structures are planted.",
    "C03": " Generated databases whose only structural alleles are right fusions, left fusions or the deletion, and "
           "databases without any, are driven through estimate_cn.",
    "C04": " The evidence handed to the model is compared with an independent recomputation of the documented noise "
           "filter; structures naming the deletion explicitly, weak spurious support, companions and the novel switch "
           "are part of the workload.",
    "C05": " One-sided error terms, bounded and integer slack variables and staged model construction (a peek solve "
           "before the model is complete) are part of the generated models.",
    "C07": " Neutral regions shorter than a read and on another contig at coordinates overlapping the gene's.",
    "C10": " The real genotype() is also driven with given stage results (replaced stage functions returning well-formed "
           "solutions with drawn, close scores) so that selection, rescaling and ordering see rare combinations.",
    "C13": " Uncatalogued exonic substitutions with the novel switch; VCF input per build.",
    "C14": " Repeat-call clause on one evidence object and on a sample loaded afresh.",
    "C15": " Thin sites, indel tables, explicit deletion structures, weak qualifying support, deep low-quality clutter, "
           "and read-level pairs (low-quality reads of another genotype added to a BAM).",
    "C16": " Deletion records whose deleted bases differ from the RefSeq, uncatalogued MNP records starting on a "
           "catalogued SNP site, user structure with VCF input.",
    "C17": " Profile files with their own options (including falsy values), minimum depths above the sample's, "
           "two-gene archives and the shipped NA10860 BAM in both tiers.",
    "C19": " Reads only inside the padding of the indexed query and on a contig whose name ends with the gene's "
           "(unindexed text SAM).",
}


def main():
    props = [json.loads(l) for l in open(os.path.join(HERE, "properties.jsonl"))]
    try:
        hooks_commits = []
    except Exception:
        hooks_commits = []
    checks = []
    na = []
    for p in props:
        pid = p["id"]
        if pid in CLAIMED and os.path.exists(
            os.path.join(HERE, "aldymon", "props", pid.lower() + ".py")
        ):
            tech, text, note, ref = CLAIMED[pid]
            text += ADDENDA.get(pid, "")
            checks.append(
                {
                    "property_id": pid,
                    "quick_cmd": f"./check {pid} quick",
                    "thorough_cmd": f"./check {pid} thorough",
                    "evidence_file": f"/verif/evidence/{pid}.json",
                    "replay_cmd_template": f"./check {pid} --replay {{path}}",
                    "engine": "aldymon",
                    "level_claimed": {"category": "exploration", "text": text, "design_ref": ref},
                    "level_note": note,
                    "technique": tech,
                }
            )
        else:
            na.append(
                {
                    "property_id": pid,
                    "reason": NOT_YET.get(
                        pid,
                        "runtime monitoring applies (see DESIGN.md section 4) but the monitor for this "
                        "property is not built yet in this round; not claimed until its check exists",
                    ),
                }
            )
    m = {
        "version": 1,
        "setup_cmd": "./tools/setup.sh",
        "hooks": {
            "guard": "ALDY_VERIF",
            "enable": "no source hooks: the monitors are attached from /verif by rebinding module/class attributes of "
            "aldy at run time in the worker processes (ALDY_VERIF=1 is set in their environment); /repo is imported "
            "from its current working tree (ALDY_REPO overrides for self-tests)",
            "baseline_off_cmd": "cd /repo && /venv/bin/python -m pytest -ra -q -p no:cacheprovider --timeout=900 "
            "--continue-on-collection-errors aldy/tests",
            "source_commits": hooks_commits,
            "add_only": True,
        },
        "engines": [
            {
                "name": "aldymon",
                "path": "/verif/aldymon",
                "serves_properties": [c["property_id"] for c in checks],
                "kind_free_text": "runtime monitoring: generated/hostile workloads driven through the real aldy code in "
                "worker subprocesses, with monitors (wrapped functions, an ILP shadow monitor, reference models, "
                "offline history checkers) deciding each property on the observed executions",
            }
        ],
        "checks": checks,
        "not_applicable": na,
        "notes": "Exit 0 = held on everything observed (KNOWN-FINDING lines for listed findings), 1 = VIOLATION with "
        "replay file, 2 = INCONCLUSIVE (a deciding monitor was not reached / worker died). Known findings: "
        "/verif/known_findings.json. Seeded changes used to validate the monitors: /verif/seeded/.",
    }
    with open(os.path.join(HERE, "MANIFEST.json"), "w") as f:
        json.dump(m, f, indent=1)
    print(f"claimed={len(checks)} not_applicable={len(na)}")


if __name__ == "__main__":
    main()
